"""C26 — channel receive buffers (paramiko.buffered_pipe.BufferedPipe) are lossless FIFOs with
correct close and timeout rules, under any interleaving.

Proof: coq/Props/C26_props.v over coq/Model/C26.v (+ coq/Lib/Sched.v, coq/Gen/C26_gen.v).
Tie: a deterministic scheduler drives the *real* BufferedPipe with 1-3 real threads, one critical
section at a time (the instance's `_lock` / `_cv` are replaced by instrumented objects, the module's
clock is pinned), over every interleaving of small programs; each schedule is also executed by the
model's own definitions inside Coq (vm_compute) and the per-step results are compared.
Oracle: the FIFO / close / timeout / wake-up rules stated directly over the observed results.
"""
import threading

from common import coq

PID = "C26"
LEVEL_TEXT = ("Machine-checked proof (Coq, closed under the global context) over a transition-system model of "
              "BufferedPipe whose atomic actions are the critical sections of feed/read/empty/close/set_event "
              "(read = entry section + one wake-up section per return of cv.wait, with the clock reading as an "
              "arbitrary environment input): for every interleaving of every set of thread programs, data read "
              "and emptied in completion order ++ buffer = data fed (FIFO, lossless); a read of size >= 1 returns "
              "empty only when closed and drained; PipeTimeout leaves all data in place and is raised only with an "
              "empty buffer; no lost wake-up; the event is set whenever the pipe is readable.  The model is tied to "
              "buffered_pipe.py every run by executing all interleavings of small programs on the real class under "
              "a deterministic scheduler and comparing every step with the model run on the same schedule.")
LEVEL_NOTE = ("Trusted: Coq kernel + vm_compute; the identification of the model's atomic actions with the source's "
              "critical sections is checked, not proved: dynamically (every read/write of _buffer/_closed/_event on "
              "the instance goes through hooks that require the instrumented lock to be held by the running thread; "
              "an unlocked access is a violation and adds switch points so the lossy schedule is found) and "
              "statically (gen/c26.py, fail-closed); CPython threading primitives replaced by instrumented fakes on "
              "the instance under test; times are integer ticks (floats with integer values in the implementation).")
TECHNIQUE = ("Coq proof (invariants over all interleavings, Lib/Sched.v) + deterministic-scheduler correspondence "
             "(+ oracle-only enumeration of the Channel-level receive path)")
GENS = ["c26"]

WATCHDOG = 5.0
NTID = 4           # width of the waiter-status vector in the model's trace
_CLOCK = [1000.0]


def _held_lock():
    lk = threading.Lock()
    lk.acquire()
    return lk


class _Abort(BaseException):
    """Unwinds a worker that is still blocked when an execution is torn down."""


class Hang(Exception):
    pass


class _TimeShim:
    """Stands in for the `time` module inside paramiko.buffered_pipe (pinned clock)."""

    @staticmethod
    def time():
        return _CLOCK[0]


_ABSENT = object()


def _pin_clock(bp):
    """Pin the clock the module sees (it may not import `time` at all after a change)."""
    saved = getattr(bp, "time", _ABSENT)
    bp.time = _TimeShim
    return saved


def _unpin_clock(bp, saved):
    if saved is _ABSENT:
        del bp.time
    else:
        bp.time = saved


class FakeLock:
    def __init__(self, ex, name="_lock"):
        self.ex = ex
        self.name = name
        self.owner = None
        self.acquires = 0
        ex.locks.append(self)

    def acquire(self, blocking=True, timeout=-1):
        ex = self.ex
        if not ex.stop:
            mine = ex.sections.setdefault(ex.cur, {})
            if ex.holds_lock(ex.cur):
                pass        # nested acquisition inside another critical section: not a switch point
            elif ex.dirty.get(ex.cur):
                # this operation already touched shared state without the lock: whatever it read may
                # be stale by the time it gets the lock, so other threads may run here
                ex.pause(ex.cur, "lock acquire after an unlocked access")
            elif mine.get(id(self), 0) >= 1:
                # the operation takes this lock more than once: other threads may run between the
                # two critical sections
                ex.pause(ex.cur, "between two critical sections of one operation")
            mine[id(self)] = mine.get(id(self), 0) + 1
        if self.owner is not None:
            self.ex.problems.append("lock acquired while held")
            raise RuntimeError("lock acquired while held (would deadlock)")
        self.owner = self.ex.cur
        self.acquires += 1
        return True

    def release(self):
        if self.ex.stop:
            self.owner = None
            return
        if self.owner is None or self.owner != self.ex.cur:
            self.ex.problems.append("release of a lock not held")
            raise RuntimeError("release unlocked lock")
        self.owner = None

    def locked(self):
        return self.owner is not None

    __enter__ = acquire

    def __exit__(self, *a):
        self.release()


class FakeCV:
    """threading.Condition look-alike: wait() reports "blocked" to the scheduler and parks the thread
    until the scheduler runs its wake-up step."""

    def __init__(self, ex, lock):
        self.ex = ex
        self.lock = lock
        self.acquire = lock.acquire
        self.release = lock.release

    def __enter__(self):
        return self.lock.acquire()

    def __exit__(self, *a):
        self.lock.release()

    def wait(self, timeout=None):
        ex = self.ex
        i = ex.cur
        if self.lock.owner != i:
            raise RuntimeError("cannot wait on un-acquired lock")
        self.lock.owner = None
        ex.waiting[i] = {"timeout": timeout, "notified": False, "then": _CLOCK[0], "seq": ex.tick()}
        nxt = ex.complete(i, ("blocked",))
        if nxt != i:                    # somebody else's step (or the end): park until resumed
            if nxt is not None:
                ex.pool.go[nxt].release()
            ex.pool.go[i].acquire()
        w = ex.waiting.pop(i)
        self.lock.owner = i             # re-acquire
        if ex.stop:
            raise _Abort()
        return w["notified"]

    def notify(self, n=1):
        if self.lock.owner != self.ex.cur:
            raise RuntimeError("cannot notify on un-acquired lock")
        ws = sorted((w for w in self.ex.waiting.values() if not w["notified"]), key=lambda w: w["seq"])
        for w in ws[:n]:
            w["notified"] = True

    def notify_all(self):
        self.notify(1 << 30)

    notifyAll = notify_all


WATCHED = ("_buffer", "_closed", "_event")
_WATCHED_CLASSES = {}


def watch(obj, ex, names, lock, write_all=False):
    """Route every read / write of the shared attributes `names` of `obj` (and, with write_all, every
    attribute WRITE whatever the name) through ex.access(name, lock) (lock = the instrumented lock that
    has to be held), by giving the instance a subclass with attribute hooks (the class under test itself
    is not modified)."""
    base = type(obj)
    cls = _WATCHED_CLASSES.get((base, names, write_all))
    if cls is None:
        class Watched(base):
            def __getattribute__(self, name):
                if name in names:
                    oga = object.__getattribute__
                    oga(self, "_c26_ex").access(name, oga(self, "_c26_lock"))
                return base.__getattribute__(self, name)

            def __setattr__(self, name, value):
                if write_all or name in names:
                    oga = object.__getattribute__
                    oga(self, "_c26_ex").access(name, oga(self, "_c26_lock"))
                base.__setattr__(self, name, value)

        cls = _WATCHED_CLASSES[(base, names, write_all)] = Watched
    object.__setattr__(obj, "_c26_ex", ex)
    object.__setattr__(obj, "_c26_lock", lock)
    obj.__class__ = cls


class _Observe(Exception):
    """Raised by the pipe factory when the harness itself (not the code under test) would allocate."""


_CHAN_EX = [None]


def instrument_pipe(ex, pipe, name):
    lk = FakeLock(ex, name)
    pipe._lock = lk
    pipe._cv = FakeCV(ex, lk)
    watch(pipe, ex, WATCHED, lk)
    ex.pipes.append(pipe)
    return pipe


class pipe_factory:
    """While installed, every BufferedPipe that paramiko.channel constructs -- in Channel.__init__ or later,
    lazily, inside an operation -- is a real BufferedPipe instrumented for the running execution."""

    def __enter__(self):
        import paramiko.channel as pc
        import paramiko.buffered_pipe as bp
        self.pc = pc
        self.saved = getattr(pc, "BufferedPipe", _ABSENT)
        real = bp.BufferedPipe

        def make(*a, **k):
            ex = _CHAN_EX[0]
            if ex is None:
                return real(*a, **k)
            if ex.observing:
                raise _Observe()
            return instrument_pipe(ex, real(*a, **k), "pipe%d._lock" % len(ex.pipes))

        if self.saved is not _ABSENT:
            pc.BufferedPipe = make
        return self

    def __exit__(self, *a):
        _CHAN_EX[0] = None
        if self.saved is not _ABSENT:
            self.pc.BufferedPipe = self.saved


class Pool:
    """Persistent real worker threads.  Exactly one of {main, workers} runs at any time: the baton is
    handed over through per-thread locks used as binary semaphores.  The scheduling decision is taken
    by whichever thread just finished (or blocked in) a step, so a context switch only happens when the
    next step belongs to another thread."""

    def __init__(self, n=NTID):
        self.go = [_held_lock() for _ in range(n)]
        self.main = _held_lock()
        self.ex = None
        self.dead = False
        self.threads = [threading.Thread(target=self._worker, args=(i,), daemon=True) for i in range(n)]
        for t in self.threads:
            t.start()

    def _worker(self, i):
        while True:
            self.go[i].acquire()              # baton: run my next operation
            ex = self.ex
            if ex is None or self.dead:
                return
            while True:
                try:
                    res = ex.perform(ex.pending_op)
                except ex.bp.PipeTimeout:
                    res = ("timeout",)
                except _Abort:
                    self.main.release()       # unwound at teardown
                    break
                except BaseException as e:  # noqa
                    res = ("exc", type(e).__name__)
                nxt = ex.complete(i, res)
                if nxt == i:
                    continue
                if nxt is not None:
                    self.go[nxt].release()
                break


_POOL = [None]


def pool():
    if _POOL[0] is None or _POOL[0].dead:
        _POOL[0] = Pool()
    return _POOL[0]


class Exec:
    """One execution of `programs` (list of op lists) on a fresh real BufferedPipe, following
    `prefix` (list of (tid, dt)) and then `extend(choices) -> index` until nothing is enabled."""

    def __init__(self, ctx, programs, prefix, extend=None, wide=False):
        import paramiko.buffered_pipe as bp
        self.bp = bp
        self.pool = pool()
        self.programs = programs
        self.prefix = [tuple(c) for c in prefix]
        self.extend = extend
        self.wide = wide
        n = len(programs)
        assert n <= NTID
        self.cur = None
        self.waiting = {}
        self.started = [0] * n
        self.stop = False
        self.problems = []
        self._seq = 0
        self.event = None
        _CLOCK[0] = 1000.0
        self.locks = []         # every instrumented lock of this execution
        self.paused = {}        # tid -> why (thread parked at an extra switch point)
        self.dirty = {}         # tid -> the running operation has touched shared state unlocked
        self.sections = {}      # tid -> {lock: acquisitions made by the running operation}
        self.unlocked = []      # (attribute, action) of unlocked accesses not yet reported
        self.unmodelled = False
        self.observing = False  # the harness itself is looking at the objects: hooks stay quiet
        self.pipes = []
        self.setup()
        self.orc = self.make_oracle(ctx, programs)
        self.sched, self.actions, self.trace, self.siblings = [], [], [], []
        self.pending = None
        self.pending_op = None
        self.error = None
        self.why = None

    RIG = "pipe"

    def setup(self):
        self.pipe = self.bp.BufferedPipe()
        self.lock = FakeLock(self)
        self.pipe._lock = self.lock
        self.pipe._cv = FakeCV(self, self.lock)
        watch(self.pipe, self, WATCHED, self.lock)

    def make_oracle(self, ctx, programs):
        return Oracle(ctx, programs)

    def action_of(self, op):
        return op_action(op)

    def tick(self):
        self._seq += 1
        return self._seq

    def holds_lock(self, i):
        return any(lk.owner == i for lk in self.locks)

    def access(self, name, lock):
        """Called (from the running worker) before every read / write of a shared attribute that is
        to be touched only with `lock` held."""
        if self.stop or self.observing:
            return
        i = self.cur
        if lock.owner == i:
            return
        self.dirty[i] = True
        self.unlocked.append((name, self.pending[1]))
        if not self.holds_lock(i):
            self.pause(i, "before an unlocked access to %s" % name)

    def pause(self, i, why):
        """Extra switch point inside an operation (only reached by code that breaks the lock
        discipline): hand the turn to the scheduler; resumed by a (tid, "resume") step."""
        self.paused[i] = why
        self.unmodelled = True
        nxt = self.complete(i, ("paused", why))
        if nxt != i:
            if nxt is not None:
                self.pool.go[nxt].release()
            self.pool.go[i].acquire()
        self.paused.pop(i, None)
        if self.stop:
            raise _Abort()

    def perform(self, op):
        k = op[0]
        if k == "feed":
            self.pipe.feed(op[1])
            return ("done",)
        if k == "read":
            t = op[2]
            if len(op) > 3 and op[3] == "int":
                return ("ret", self.pipe.read(op[1], int(t)))       # timeout passed as an int (0, not 0.0)
            return ("ret", self.pipe.read(op[1], None if t is None else float(t)))
        if k == "empty":
            return ("emptied", self.pipe.empty())
        if k == "close":
            self.pipe.close()
            return ("done",)
        if k == "setevent":
            self.event = threading.Event()
            self.pipe.set_event(self.event)
            return ("done",)
        raise ValueError(op)

    def choices(self):
        """Enabled atomic steps: (tid, None) = next op of an idle thread; (tid, dt) = wake-up of a
        blocked reader with clock reading dt (enabled when notified or timed)."""
        out = []
        wide = self.wide
        for i in range(len(self.programs)):
            if i in self.paused:
                out.append((i, "resume"))
                continue
            w = self.waiting.get(i)
            if w is not None:
                rem = w["timeout"]
                if rem is None:
                    if w["notified"]:
                        out.append((i, 0))
                    continue
                rem = int(rem)
                if w["notified"]:
                    dts = [0, rem]                    # well before / exactly at the deadline
                    if wide:
                        dts += [rem + 1] + ([rem - 1] if rem > 1 else [])
                else:
                    dts = [rem]                       # the wait timed out
                    if wide:
                        dts += [rem + 2] + ([1] if rem > 1 else [])   # late / early return of wait
                out += [(i, d) for d in dict.fromkeys(dts)]
            elif self.started[i] < len(self.programs[i]):
                out.append((i, None))
        return out

    def _decide(self):
        """Pick and prepare the next step; returns its thread id, or None at the end."""
        ch = self.choices()
        pos = len(self.sched)
        if pos < len(self.prefix):
            c = self.prefix[pos]
            if c not in ch:       # only when replaying a recorded schedule on changed code
                self.why = "step %r not enabled (enabled: %r)" % (c, ch)
                return None
        else:
            if not ch or self.extend is None:
                return None
            k = self.extend(ch)
            for j, alt in enumerate(ch):
                if j != k:
                    self.siblings.append(self.sched + [alt])
            c = ch[k]
        tid, dt = c
        w = self.waiting.get(tid)
        if tid in self.paused:
            action, op = ("Resume",), None
        elif w is not None:
            _CLOCK[0] = w["then"] + float(dt)
            action, op = ("AWake", dt), None
        else:
            op = self.programs[tid][self.started[tid]]
            self.started[tid] += 1
            self.dirty[tid] = False
            self.sections[tid] = {}
            action = self.action_of(op)
        self.cur = tid
        self.pending = (c, action, op, sum(lk.acquires for lk in self.locks))
        self.pending_op = op
        return tid

    def complete(self, i, res):
        """Called by thread i when its step has ended (or blocked).  Records it, decides the next step
        and returns the thread that has to run it (None = finished; main has been woken)."""
        try:
            c, action, op, before = self.pending
            if res[0] not in ("blocked", "exc", "paused"):
                if any(lk.owner is not None for lk in self.locks):
                    self.problems.append("lock still held after %r" % (action,))
                if op is not None and sum(lk.acquires for lk in self.locks) == before:
                    self.problems.append("no lock acquired during %r" % (action,))
            self.sched.append(c)
            self.actions.append((i, action))
            self.trace += enc_result(res) + self.wstat()
            self.orc.step(c[0], c[1], action, res, self)
            nxt = self._decide()
        except BaseException as e:  # noqa -- a bug in the harness itself: surface it in main
            self.error = e
            nxt = None
        if nxt is None:
            self.pool.main.release()
        return nxt

    def wstat(self):
        """All four thread slots in one number (base 3): 0 idle, 1 waiting, 2 waiting and notified."""
        code = 0
        for i in reversed(range(NTID)):
            w = self.waiting.get(i)
            code = 3 * code + (0 if w is None else (2 if w["notified"] else 1))
        return [code]

    def final(self):
        ev = self.event
        st = vars(self.pipe)       # the harness's own look at the state bypasses the access hooks
        return {"buffer": st["_buffer"].tobytes(), "closed": bool(st["_closed"]),
                "has_event": ev is not None, "event_set": bool(ev is not None and ev.is_set())}

    def run(self):
        """Main-thread side: start, wait for the end, unwind blocked readers."""
        p = self.pool
        p.ex = self
        first = self._decide()
        if first is not None:
            p.go[first].release()
            if not p.main.acquire(timeout=WATCHDOG * 4):
                p.dead = True
                raise Hang("no progress after step %r" % (self.pending[:2],))
        if self.error is not None:
            p.dead = True
            raise self.error
        blocked = sorted(self.waiting)
        self.stop = True
        for j in sorted(set(blocked) | set(self.paused)):
            self.cur = j
            for lk in self.locks:
                lk.owner = None
            p.go[j].release()
            if not p.main.acquire(timeout=WATCHDOG):
                p.dead = True
                raise Hang("blocked thread %d did not unwind" % j)
        return blocked


class ChanExec(Exec):
    """The Channel-level receive path on a real paramiko.channel.Channel (stub transport): incoming
    CHANNEL_DATA (_feed), CHANNEL_EXTENDED_DATA (_feed_extended), set_combine_stderr, and non-blocking
    recv / recv_stderr.  The channel lock and both pipes' locks are instrumented; `combine_stderr` may be
    touched only with the channel lock held (an unlocked access is a finding and a switch point)."""
    RIG = "channel"

    def setup(self):
        from paramiko.channel import Channel

        class T:
            active = True

            def __init__(self):
                self.sent = []

            def get_log_channel(self):
                return "paramiko.c26"

            def _send_user_message(self, m):
                self.sent.append(m)

            def _sanitize_packet_size(self, n):
                return n

            def _unlink_channel(self, chanid):
                pass

        # pipes the Channel constructs (now or lazily, later) are instrumented by the installed factory;
        # the harness never touches ch.in_stderr_buffer itself before the threads do
        _CHAN_EX[0] = self
        ch = Channel(1)
        ch._set_transport(T())
        ch._set_window(1 << 30, 1 << 15)
        ch._set_remote_channel(7, 1 << 30, 1 << 15)
        ch.timeout = 0.0
        self.chlock = FakeLock(self, "channel.lock")
        ch.lock = self.chlock
        ch.out_buffer_cv = FakeCV(self, self.chlock)
        for name, v in sorted(vars(ch).items()):
            if isinstance(v, self.bp.BufferedPipe) and not any(v is q for q in self.pipes):
                instrument_pipe(self, v, name + "._lock")      # factory not installed / other import style
        # combine_stderr may only be touched, and any attribute only be WRITTEN, with the channel lock held
        watch(ch, self, ("combine_stderr",), self.chlock, write_all=True)
        self.ch = ch
        self.pipe = vars(ch)["in_buffer"]
        self.lock = self.chlock

    def make_oracle(self, ctx, programs):
        return ChanOracle(ctx, programs)

    def action_of(self, op):
        k = op[0]
        if k in ("out", "err"):
            return ("Out" if k == "out" else "Err", list(op[1]))
        if k == "combine":
            return ("Combine", bool(op[1]))
        if k in ("eof", "chclose", "unlink"):
            return ({"eof": "Eof", "chclose": "ChClose", "unlink": "Unlink"}[k],)
        return ("Recv" if k == "recv" else "RecvErr", op[1]) + tuple(op[2:])

    def perform(self, op):
        import socket
        from paramiko.message import Message
        k = op[0]
        ch = self.ch
        if k == "out":
            m = Message()
            m.add_string(op[1])
            m.rewind()
            ch._feed(m)
            return ("done",)
        if k == "err":
            m = Message()
            m.add_int(1)
            m.add_string(op[1])
            m.rewind()
            ch._feed_extended(m)
            return ("done",)
        if k == "combine":
            return ("done", bool(ch.set_combine_stderr(op[1])))
        if k == "eof":                      # peer sent CHANNEL_EOF (no CHANNEL_CLOSE)
            ch._handle_eof(None)
            return ("done",)
        if k == "chclose":                  # peer sent CHANNEL_CLOSE
            ch._handle_close(None)
            return ("done",)
        if k == "unlink":                   # transport died: Channel._unlink -> _set_closed
            ch._unlink()
            return ("done",)
        # timeout variant of this read (the harness's own setting, not an operation under test)
        t = 0.0
        if len(op) > 2:
            t = op[2] if op[2] is None else (int(op[2]) if len(op) > 3 and op[3] == "int" else float(op[2]))
        vars(ch)["timeout"] = t
        try:
            return ("ret", ch.recv(op[1]) if k == "recv" else ch.recv_stderr(op[1]))
        except socket.timeout:
            return ("timeout",)

    def buffers(self):
        """What recv() / recv_stderr() could still deliver: the content of the pipes reachable through the
        public attributes right now (looked at without disturbing the object: no hooks, no allocation)."""
        ch = self.ch
        self.observing = True
        try:
            out = []
            for attr in ("in_buffer", "in_stderr_buffer"):
                try:
                    out.append(vars(getattr(ch, attr))["_buffer"].tobytes())
                except _Observe:
                    out.append(b"")          # not allocated yet
            return tuple(out)
        finally:
            self.observing = False

    def final(self):
        out, err = self.buffers()
        return {"buffer": out, "stderr_buffer": err, "closed": False, "has_event": False, "event_set": False}


def is_subseq(a, b):
    it = iter(b)
    return all(x in it for x in a)


class ChanOracle:
    """FIFO over the union of the two receive buffers.  stdout payload bytes are lower-case, stderr payload
    bytes upper-case, every byte value fed at most once, so streams can be projected:
      * the stdout bytes of (recv results ++ in_buffer) are exactly the stdout bytes fed, in order;
      * every stderr byte fed is in exactly one of (recv results ++ in_buffer) and (recv_stderr results ++
        in_stderr_buffer), and in each of the two it keeps its arrival order;
      * while combining is on (set_combine_stderr(True) has returned and nothing is in progress) no data is
        left in the stderr buffer, and recv_stderr delivers nothing."""
    RIG = "channel"

    def __init__(self, ctx, programs):
        self.ctx = ctx
        self.programs = programs
        self.out_fed = b""
        self.err_fed = b""
        self.out_got = b""
        self.err_got = b""
        self.combine = False
        self.ended = False      # peer EOF / CLOSE / transport loss has been processed
        self.results = []
        self.inflight = {}
        self.steps = []
        self.failed = False
        self.desync = False

    def fail(self, key, what, expected=None, observed=None):
        if self.desync and key not in ("unlocked-state-access", "lock-discipline", "hang"):
            return
        self.failed = True
        self.ctx.fail(key, what, case={"rig": "channel", "programs": self.programs, "schedule": list(self.steps)},
                      expected=expected, observed=observed)

    def step(self, tid, dt, action, res, ex):
        self.steps.append([tid, dt])
        k = res[0]
        self.results.append(tuple(res))
        if action[0] not in ("Resume", "AWake"):
            self.inflight[tid] = action
        if action[0] in ("Recv", "RecvErr") and k in ("timeout", "blocked") and self.ended:
            out_buf, err_buf = ex.buffers()
            if not (out_buf if action[0] == "Recv" else err_buf):
                self.fail("no-eof-on-stream",
                          "%s after the peer's EOF / CLOSE on a drained stream %s instead of returning the empty "
                          "string (both receive buffers must report end-of-file)"
                          % ("recv" if action[0] == "Recv" else "recv_stderr",
                             "raised socket.timeout" if k == "timeout" else "blocked"),
                          expected=b"", observed=k)
        if k == "exc":
            self.fail("unexpected-exception", "%s raised %s" % (action[0], res[1]), observed=res[1])
        if k not in ("paused", "blocked"):
            act0 = self.inflight.pop(tid, action)
            if act0[0] == "Out":
                self.out_fed += bytes(act0[1])
            elif act0[0] == "Err":
                self.err_fed += bytes(act0[1])
            elif act0[0] == "Combine" and k == "done":
                self.combine = act0[1]
            elif act0[0] in ("Eof", "ChClose", "Unlink") and k == "done":
                self.ended = True
            elif act0[0] == "Recv" and k == "ret":
                self.out_got += res[1]
            elif act0[0] == "RecvErr" and k == "ret":
                if self.combine and res[1]:
                    self.fail("combine-recv-stderr", "recv_stderr delivered data although stderr is combined into "
                              "stdout", expected=b"", observed=res[1])
                self.err_got += res[1]
        for name, act in ex.unlocked:
            self.fail("unlocked-state-access",
                      "%s touches (for combine_stderr) or writes self.%s without holding the channel lock: the test "
                      "and the store are not one step with respect to the other receive-path operations"
                      % (act[0], name))
        del ex.unlocked[:]
        for p in ex.problems:
            self.fail("lock-discipline", p)
        del ex.problems[:]
        if ex.paused or self.inflight:
            return
        self.check(ex)

    def check(self, ex):
        out_buf, err_buf = ex.buffers()
        s_stream = self.out_got + out_buf
        e_stream = self.err_got + err_buf
        lower = bytes(c for c in s_stream if 97 <= c <= 122)
        upper_s = bytes(c for c in s_stream if 65 <= c <= 90)
        if lower != self.out_fed:
            self.fail("channel-fifo", "stdout data delivered ++ buffered differs from the stdout data fed",
                      expected=self.out_fed, observed=lower)
            self.desync = True
        if sorted(upper_s + e_stream) != sorted(self.err_fed):
            self.fail("channel-fifo", "stderr data is lost or duplicated across the two receive buffers",
                      expected=self.err_fed, observed={"in_stdout_stream": upper_s, "in_stderr_stream": e_stream})
            self.desync = True
        elif not (is_subseq(upper_s, self.err_fed) and is_subseq(e_stream, self.err_fed)):
            self.fail("channel-fifo", "stderr data is delivered out of arrival order (later data overtook "
                      "earlier data)", expected=self.err_fed,
                      observed={"in_stdout_stream": upper_s, "in_stderr_stream": e_stream})
            self.desync = True
        if self.combine and err_buf:
            self.fail("combine-stderr-left-behind",
                      "stderr combining is on but %d byte(s) sit in the stderr buffer: they are never delivered by "
                      "recv() and later stderr data overtakes them" % len(err_buf), expected=b"", observed=err_buf)

    def finish(self, ex):
        if not self.inflight:
            self.check(ex)
        return ex.final()


def op_action(op):
    k = op[0]
    if k == "feed":
        return ("AFeed", list(op[1]))
    if k == "read":
        return ("ARead", op[1], None if op[2] is None else ("Some", op[2]))
    return {"empty": ("AEmpty",), "close": ("AClose",), "setevent": ("ASetEvent",)}[k]


def enc_result(res):
    k = res[0]
    if k == "done":
        return [-10]
    if k == "blocked":
        return [-11]
    if k == "ret":
        return [-12] + list(res[1])
    if k == "timeout":
        return [-13]
    if k == "emptied":
        return [-14] + list(res[1])
    if k == "paused":
        return [-98]
    return [-99]


class Oracle:
    """The property stated directly over what the threads observe, step by step."""
    RIG = "pipe"

    def __init__(self, ctx, programs):
        self.ctx = ctx
        self.programs = programs
        self.fed = b""
        self.got = b""
        self.closed = False
        self.cur_read = {}      # tid -> (n, timeout) of the read in progress
        self.inflight = {}      # tid -> action of a non-read operation that has started
        self.desync = False     # data already lost / duplicated: byte accounting no longer meaningful
        self.results = []       # observed result of every step, in order
        self.steps = []
        self.failed = False

    def fail(self, key, what, expected=None, observed=None):
        if self.desync and key not in ("fifo", "unlocked-state-access", "lock-discipline", "hang"):
            return      # consequence of the loss / duplication already reported for this execution
        self.failed = True
        self.ctx.fail(key, what, case={"rig": self.RIG, "programs": self.programs, "schedule": list(self.steps)},
                      expected=expected, observed=observed)

    def step(self, tid, dt, action, res, ex):
        self.steps.append([tid, dt])
        self.results.append(tuple(res))
        avail = len(self.fed) - len(self.got)
        k = res[0]
        if action[0] == "ARead":
            self.cur_read[tid] = (action[1], None if action[2] is None else action[2][1])
        # feed / close take effect when the operation completes (it may be parked at an extra
        # switch point first; its original action is remembered)
        if action[0] in ("AFeed", "AClose", "AEmpty", "ASetEvent"):
            self.inflight[tid] = action
        if k not in ("paused", "blocked"):
            act0 = self.inflight.pop(tid, action)
            if act0[0] == "AFeed" and k == "done":
                self.fed += bytes(act0[1])
            if act0[0] == "AClose" and k == "done":
                self.closed = True
        if k == "exc":
            self.fail("unexpected-exception", "%s raised %s" % (action[0], res[1]), observed=res[1])
        elif k == "ret":
            n, t = self.cur_read.pop(tid)
            d = res[1]
            if len(d) > n:
                self.fail("read-too-long", "read(%d) returned %d bytes" % (n, len(d)), observed=d)
            if n >= 1 and d == b"" and not (self.closed and avail == 0):
                self.fail("empty-read-not-closed-drained",
                          "read(n>=1) returned the empty string although the pipe was %s with %d byte(s) "
                          "undelivered" % ("closed" if self.closed else "open", avail), observed=d)
            self.got += d
        elif k == "emptied":
            self.got += res[1]
        elif k == "timeout":
            n, t = self.cur_read.pop(tid)
            if t is None:
                self.fail("timeout-without-timeout", "PipeTimeout from a read without timeout")
            if action[0] == "ARead" and self.closed and avail == 0:
                self.fail("timeout-on-closed-drained",
                          "read(timeout=%r) on a pipe that is closed and drained raised PipeTimeout instead of "
                          "returning the empty string (end-of-file is never reported to this reader)" % (t,),
                          expected=b"", observed="PipeTimeout")
            if avail > 0:
                self.fail("timeout-with-data",
                          "PipeTimeout raised although %d byte(s) fed earlier were still undelivered (data was "
                          "available)" % avail,
                          expected=self.fed[len(self.got):][:max(n, 0)], observed="PipeTimeout")
        elif k == "blocked":
            n, t = self.cur_read[tid]
            if action[0] == "ARead" and self.closed and avail == 0:
                self.fail("blocked-on-closed-drained", "read on a closed, drained pipe blocked instead of returning "
                          "the empty string", expected=b"")
            if avail > 0 or self.closed:
                self.fail("blocked-although-ready", "read went (back) to waiting although data was buffered "
                          "or the pipe was closed")
            if t == 0 and action[0] == "ARead":
                self.fail("blocked-zero-timeout", "read(timeout=0) blocked")
        for name, act in ex.unlocked:
            self.fail("unlocked-state-access",
                      "%s touches self.%s without holding self._lock (the operation is not atomic: other threads "
                      "can run between that access and the locked part)" % (act[0], name))
        del ex.unlocked[:]
        if ex.paused:
            return      # an operation is parked half-way: the state rules are checked when none is
        # FIFO so far: what has been delivered is a prefix of what has been fed
        if not self.fed.startswith(self.got):
            self.fail("fifo", "delivered data is not a prefix of the fed data", expected=self.fed,
                      observed=self.got)
            self.desync = True
        # buffered data must be exactly the undelivered suffix
        buf = vars(ex.pipe)["_buffer"].tobytes()
        if self.got + buf != self.fed:
            self.fail("fifo", "delivered ++ buffered != fed (data lost, duplicated or reordered)",
                      expected=self.fed, observed=self.got + buf)
            self.desync = True
        # no lost wake-up: once data is buffered or the pipe closed every blocked reader is notified
        avail = len(self.fed) - len(self.got)
        if avail > 0 or self.closed:
            for j, w in sorted(ex.waiting.items()):
                if not w["notified"]:
                    self.fail("reader-not-woken", "thread %d stays blocked in read() un-notified although %s"
                              % (j, "the pipe is closed" if self.closed else "%d byte(s) are buffered" % avail))
            if ex.event is not None and not ex.event.is_set():
                self.fail("event-not-set", "event installed by set_event is clear although the pipe is readable")
        for p in ex.problems:
            self.fail("lock-discipline", p)
        del ex.problems[:]

    def finish(self, ex):
        fin = ex.final()
        if self.got + fin["buffer"] != self.fed:
            self.fail("fifo", "read ++ emptied ++ final buffer != fed", expected=self.fed,
                      observed=self.got + fin["buffer"])
        return fin


def run_schedule(ctx, programs, prefix, extend=None, wide=False, cls=None):
    """Execute `prefix` (list of (tid, dt)); then keep extending with extend(choices) until no step
    is enabled.  Returns dict(ok, actions, trace, schedule, siblings, ...)."""
    ex = (cls or Exec)(ctx, programs, prefix, extend, wide)
    try:
        blocked = ex.run()
    except Hang as e:
        ex.orc.steps.append(list(ex.pending[0]))
        ex.orc.fail("hang", "scheduler watchdog: %s" % e)
        return {"ok": False, "why": str(e), "oracle": ex.orc, "actions": ex.actions, "trace": ex.trace,
                "schedule": ex.sched, "siblings": []}
    if ex.why:
        return {"ok": False, "why": ex.why, "oracle": ex.orc, "actions": ex.actions, "trace": ex.trace,
                "schedule": ex.sched, "siblings": []}
    fin = ex.orc.finish(ex)
    trace = ex.trace + [-1] + list(fin["buffer"]) + [-2, int(fin["closed"]), int(fin["has_event"]),
                                                    int(fin["has_event"] and fin["event_set"])]
    return {"ok": True, "modelled": not ex.unmodelled, "oracle": ex.orc, "actions": ex.actions, "trace": trace,
            "schedule": ex.sched, "siblings": ex.siblings, "final": fin, "blocked": blocked}


def explore(ctx, programs, cap, cls=None):
    """All maximal schedules of `programs` by depth-first search with re-execution (one execution per
    maximal schedule).  Yields result dicts; stops after `cap` leaves (returns exhaustive flag)."""
    stack = [[]]
    leaves = []
    while stack and len(leaves) < cap:
        prefix = stack.pop()
        r = run_schedule(ctx, programs, prefix, extend=lambda ch: 0, cls=cls)
        leaves.append(r)
        if not r["ok"]:
            continue
        # alternatives discovered beyond the prefix (deepest last so the search is depth-first)
        for alt in r["siblings"]:
            stack.append(alt)
    return leaves, not stack


def random_walk(ctx, programs, rng, wide=True):
    return run_schedule(ctx, programs, [], extend=lambda ch: rng.randrange(len(ch)), wide=wide)


# ---- program generators ----------------------------------------------------------------------

PAYLOADS = [b"a", b"bc", b"def", b"ghij", b""]


def gen_op(rng, weights=None):
    r = rng.random()
    if r < 0.32:
        return ("feed", rng.choice(PAYLOADS[:4]) if rng.random() < 0.9 else b"")
    if r < 0.74:
        return ("read", rng.choice([1, 1, 2, 3, 4, 10]), rng.choice([None, None, 0, 2, 3]))
    if r < 0.84:
        return ("empty",)
    if r < 0.94:
        return ("close",)
    return ("setevent",)


def gen_programs(rng, nthreads, maxops, bias=False):
    while True:
        ps = [[gen_op(rng) for _ in range(rng.choice([maxops, maxops, rng.randrange(1, maxops + 1)]) if bias
                                          else rng.randrange(1, maxops + 1))]
              for _ in range(nthreads)]
        kinds = {op[0] for p in ps for op in p}
        if "read" in kinds and ("feed" in kinds or "close" in kinds):
            return ps


CURATED = [
    # feeder / two consumers
    [[("feed", b"ab"), ("feed", b"cde"), ("close",)],
     [("read", 2, None), ("read", 2, None), ("read", 2, None)],
     [("empty",), ("read", 1, 0)]],
    # timed readers racing for one chunk (woken, but the other one grabbed everything)
    [[("feed", b"abcd")], [("read", 4, 2), ("read", 1, 2)], [("read", 3, 2)]],
    # feed landing at the deadline; close; event
    [[("setevent",), ("feed", b"ab"), ("close",)], [("read", 1, 3), ("read", 1, 0), ("read", 4, 2)]],
    # close wakes un-timed readers; late feed after close
    [[("close",), ("feed", b"x")], [("read", 1, None), ("read", 1, None)], [("read", 2, None)]],
    # empty() against a blocked reader, zero-length feed
    [[("feed", b""), ("feed", b"gh"), ("empty",)], [("read", 1, 2), ("read", 1, None)], [("setevent",), ("close",)]],
    # two feeders: order of delivery follows order of feeding
    [[("feed", b"a"), ("feed", b"b")], [("feed", b"c"), ("close",)], [("read", 2, None), ("read", 2, 3), ("read", 2, 0)]],
]


HASH_MASK = (1 << 48) - 1


def trace_hash(trace):
    h = 0
    for v in trace:
        h = (h * 1000003 + v + 1000) & HASH_MASK
    return h


def programs_literal(programs):
    return "[" + ";".join("[" + ";".join(coq(op_action(op)) for op in p) + "]" for p in programs) + "]"


def schedule_literal(r):
    return "[" + ";".join(coq(a) for a in r["actions"]) + "]"


class Work:
    """What one run accumulates for the model comparison."""

    def __init__(self):
        self.digests = []      # (programs, count, hash-sum, first leaves) of exhaustively enumerated sets
        self.explicit = []     # (programs, result) compared schedule by schedule
        self.executed = 0
        self.unmodelled = []   # executions with switch points the model does not have
        self.exhaustive_sets = 0
        self.sets = 0


def check_programs(ctx, programs, cap, rng, work, label, nsample):
    leaves, exhaustive = explore(ctx, programs, cap)
    work.sets += 1
    work.executed += len(leaves)
    for r in leaves:
        nontrivial = any(a[1][0] in ("AWake", "ARead") for a in r["actions"]) and len(r["actions"]) > 1
        ctx.count((programs, r["schedule"]), nontrivial=nontrivial, kind=label)
    good = [r for r in leaves if r["ok"] and r["modelled"]]
    work.unmodelled += [(programs, r) for r in leaves if r["ok"] and not r["modelled"]][:1]
    if exhaustive and len(good) == len(leaves):
        work.exhaustive_sets += 1
        total = 0
        for r in good:
            total = (total + trace_hash(r["trace"])) & HASH_MASK
        work.digests.append((programs, len(good), total, good[::max(1, len(good) // 40)][:48]))
    else:
        nsample = max(nsample, 20)
    for r in (rng.sample(good, nsample) if len(good) > nsample else good):
        work.explicit.append((programs, r))
    return exhaustive


def compare_explicit(ctx, cases, report=3):
    """Schedule-by-schedule comparison with the model's step function (vm_compute in Coq)."""
    lits = [(schedule_literal(r), r["trace"]) for _, r in cases]
    bad = ctx.model_mismatches("run_trace", "(list action)", lits, shard=max(16, (len(lits) + 5) // 6))
    for i in bad[:report]:
        programs, r = cases[i]
        model = None
        try:
            import common
            model = common.coq_eval("From PV Require Import C26.", "run_trace %s" % schedule_literal(r))
        except Exception:  # noqa
            pass
        ctx.disagree("BufferedPipe differs from the model on a schedule",
                     case={"programs": programs, "schedule": [list(c) for c in r["schedule"]]},
                     model=model, impl=r["trace"])
    return bad


def compare_digests(ctx, work):
    """For every exhaustively enumerated program set: the model enumerates the interleavings itself
    (same choice policy) and must arrive at the same number of maximal schedules and the same sum of
    trace hashes as the executions of the real class."""
    lits = [(programs_literal(p), [n, h]) for p, n, h, _ in work.digests]
    bad = ctx.model_mismatches("run_explore", "(list (list act))", lits, shard=max(10, (len(lits) + 3) // 4))
    for k, i in enumerate(bad[:3]):
        programs, n, h, some = work.digests[i]
        # locate a concrete schedule for the first differing set (explicit comparison is slow)
        located = compare_explicit(ctx, [(programs, r) for r in some], report=1) if k == 0 else []
        if not located:
            ctx.disagree("set of interleavings / traces differs from the model's enumeration (digest)",
                         case={"programs": programs}, impl=[n, h])
    return bad


def read_grid(ctx, work):
    """Every read variant (blocking, timeout int 0, float 0.0, positive) x every pipe state (empty-open,
    empty-closed, drained-closed, data-open, data-closed), each read issued more than once on the same
    object; the expected results are stated here directly, independently of the model."""
    variants = [(None,), (0, "int"), (0,), (2,)]
    for v in variants:
        def rd(n, v=v):
            return ("read", n) + v
        t = v[0]
        nodata = [("blocked",)] if t is None else ([("timeout",)] if t == 0 else [("blocked",), ("timeout",)])
        grid = [
            ("empty-open", [rd(3)], nodata),
            ("empty-closed", [("close",), rd(3), rd(1)], [("done",), ("ret", b""), ("ret", b"")]),
            ("drained-closed", [("feed", b"ab"), rd(5), ("close",), rd(3), rd(3)],
             [("done",), ("ret", b"ab"), ("done",), ("ret", b""), ("ret", b"")]),
            ("data-open", [("feed", b"abc"), rd(2), rd(2)], [("done",), ("ret", b"ab"), ("ret", b"c")]),
            ("data-closed", [("feed", b"abc"), ("close",), rd(2), rd(2), rd(2)],
             [("done",), ("done",), ("ret", b"ab"), ("ret", b"c"), ("ret", b"")]),
        ]
        for state, prog, expected in grid:
            programs = [prog]
            r = run_schedule(ctx, programs, [], extend=lambda ch: 0)
            ctx.count(("grid", state, v), kind="read-grid")
            got = [x for x in r["oracle"].results if x[0] != "paused"]
            if got != expected:
                ctx.fail("read-grid-%s" % state,
                         "read with timeout %r%s on a pipe that is %s: results differ from the close / timeout rules"
                         % (t, " (int)" if len(v) > 1 else "", state),
                         case={"rig": "pipe", "programs": programs, "schedule": [list(c) for c in r["schedule"]]},
                         expected=expected, observed=got)
            if r["ok"] and r["modelled"]:
                work.explicit.append((programs, r))


CHANNEL_SETS = [
    # peer EOF without CLOSE while both streams are being read to their end
    [[("err", b"A"), ("eof",)], [("recv_err", 10), ("recv_err", 10)], [("out", b"a"), ("recv", 10), ("recv", 10)]],
    # the very first uses of the stderr buffer overlap: reader, feeder and set_combine_stderr on a fresh channel
    [[("recv_err", 10), ("recv_err", 10)], [("err", b"A"), ("err", b"B")], [("out", b"a"), ("combine", True)]],
    # stderr chunks racing with the switch to combined mode, while stdout data is received
    [[("err", b"A"), ("err", b"B"), ("err", b"C")], [("combine", True)], [("out", b"a"), ("recv", 10)]],
    # switching on, off and on again; both recv variants
    [[("err", b"A"), ("out", b"a"), ("err", b"B")], [("combine", True), ("combine", False), ("combine", True)],
     [("recv_err", 1), ("recv", 10)]],
    # two feeders
    [[("out", b"a"), ("err", b"A")], [("err", b"B"), ("combine", True)], [("recv", 1), ("recv_err", 10)]],
]


def gen_channel_programs(rng):
    lower = iter(b"abcdefghijklmnopqrstuvwxyz")
    upper = iter(b"ABCDEFGHIJKLMNOPQRSTUVWXYZ")

    def op():
        r = rng.random()
        if r < 0.25:
            return ("out", bytes(next(lower) for _ in range(rng.randrange(1, 3))))
        if r < 0.6:
            return ("err", bytes(next(upper) for _ in range(rng.randrange(1, 3))))
        if r < 0.8:
            return ("combine", rng.random() < 0.7)
        return (rng.choice(["recv", "recv_err"]), rng.choice([1, 2, 10]))
    while True:
        ps = [[op() for _ in range(rng.randrange(1, 4))] for _ in range(rng.choice([2, 3]))]
        kinds = {o[0] for p in ps for o in p}
        if "err" in kinds and "combine" in kinds:
            return ps


def channel_eof_grid(ctx):
    """For each of the two streams of a channel, each way the incoming side ends (peer EOF without CLOSE, peer
    CLOSE, transport loss) and each timeout variant: the buffered data is delivered, then recv / recv_stderr
    return the empty string, again and again; the other stream reports end-of-file too."""
    variants = [(None,), (0, "int"), (0,), (2,)]
    k = 0
    for closer in ("eof", "chclose", "unlink"):
        for feed, rd, other in (("out", "recv", "recv_err"), ("err", "recv_err", "recv")):
            data = b"ab" if feed == "out" else b"AB"
            v = variants[k % 4]
            k += 1
            for v in (variants if ctx.thorough or closer == "eof" else [v]):
                programs = [[(feed, data), (closer,), (rd, 10) + v, (rd, 10) + v, (rd, 1) + v, (other, 3) + v]]
                expected = [("done",), ("done",), ("ret", data), ("ret", b""), ("ret", b""), ("ret", b"")]
                r = run_schedule(ctx, programs, [], extend=lambda ch: 0, cls=ChanExec)
                ctx.count(("chan-eof", closer, feed, v), kind="channel-eof-grid")
                got = [x for x in r["oracle"].results if x[0] != "paused"]
                if got != expected:
                    ctx.fail("channel-eof-%s" % rd,
                             "after %s (timeout %r%s) the %s stream does not deliver its data and then end-of-file"
                             % ({"eof": "the peer's EOF without CLOSE", "chclose": "the peer's CLOSE",
                                 "unlink": "loss of the transport"}[closer], v[0], " (int)" if len(v) > 1 else "",
                                "stdout" if feed == "out" else "stderr"),
                             case={"rig": "channel", "programs": programs,
                                   "schedule": [list(c) for c in r["schedule"]]},
                             expected=expected, observed=got)


def channel_receive_path(ctx, rng):
    """All interleavings of _feed / _feed_extended / set_combine_stderr / recv / recv_stderr programs on a real
    Channel (oracle only: the Coq model of C26 is the pipe; C21 models the combine logic)."""
    sets = CHANNEL_SETS + [gen_channel_programs(rng) for _ in range(12 if ctx.thorough else 4)]
    total = 0
    with pipe_factory():
        channel_eof_grid(ctx)
        for k, programs in enumerate(sets):
            leaves, _ = explore(ctx, programs, 6000 if ctx.thorough else 1800, cls=ChanExec)
            total += len(leaves)
            for r in leaves:
                ctx.count(("chan", programs, r["schedule"]), nontrivial=len(r["actions"]) > 2,
                          kind="channel-recv-path")
    ctx.notes.append("channel receive path: %d program sets, %d schedules executed on a real Channel" % (len(sets), total))


def run(ctx):
    import paramiko.buffered_pipe as bp
    rng = ctx.rng
    ctx.rule = ("programs: 6 curated sets + seeded random sets of <= 3 threads x <= 3 ops (feed payloads <= 4 bytes "
                "incl. empty, read sizes 1..10 with timeout None / 0 / positive, empty, close, set_event); for each "
                "set ALL maximal interleavings at critical-section granularity are executed on the real class "
                "(depth-first with re-execution; wake-ups of notified timed readers at clock readings 0 and exactly "
                "the deadline, timed-out waits at the deadline) and compared with the model's own enumeration of the "
                "same set (count + sum of 48-bit trace hashes); a sample and every set that exceeds its cap are also "
                "compared schedule by schedule; plus random walks over longer 1-3 thread histories with early/late "
                "clock readings; a grid of every read variant (blocking, timeout int 0 / float 0.0 / positive) x every "
                "pipe state (empty-open, empty-closed, drained-closed, data-open, data-closed) with directly stated "
                "expected results; and all interleavings of _feed / _feed_extended / set_combine_stderr / recv / "
                "recv_stderr programs on a real Channel (oracle: FIFO over the union of both receive buffers).  "
                "A case = one (programs, schedule); non-trivial when it contains a read and more than one step.")
    ctx.trusted += ["model coq/Model/C26.v is hand-written; tied to paramiko/buffered_pipe.py by the scheduler-driven "
                    "differential run (vm_compute of the model's own step function) and gen/c26.py (shape of feed())",
                    "atomicity of critical sections: checked per operation by the instrumented lock and by access "
                    "hooks on _buffer/_closed/_event (an access without the lock is reported and becomes a switch "
                    "point); state reached only through other attributes or globals would not be seen",
                    "threading.Lock/Condition replaced on the instance by instrumented fakes with Condition's "
                    "documented semantics (wait releases the lock and returns when notified or timed out; no "
                    "spurious wake-ups are scheduled for un-timed waits)",
                    "digest comparison: 48-bit polynomial hash of each schedule's trace, summed (collisions ignored)"]
    ctx.prove(GENS)
    saved = _pin_clock(bp)
    try:
        _run(ctx, rng)
    finally:
        _unpin_clock(bp, saved)


def _run(ctx, rng):
    work = Work()
    cap = 30000 if ctx.thorough else 3000
    budget = 150000 if ctx.thorough else 8000         # executions spent on enumeration
    nrandom_sets = 120 if ctx.thorough else 30
    nsample = 5 if ctx.thorough else 1
    for k, programs in enumerate(CURATED):
        check_programs(ctx, programs, cap, rng, work, "curated-%d" % k, nsample)
    for k in range(nrandom_sets):
        nthreads = rng.choice([2, 3, 3])
        programs = gen_programs(rng, nthreads, 3 if nthreads == 2 or ctx.thorough else rng.choice([2, 2, 3]),
                                bias=ctx.thorough)
        if work.executed < budget:
            check_programs(ctx, programs, cap, rng, work, "random-%dthr" % nthreads, nsample)
    ctx.notes.append("%d program sets, %d enumerated exhaustively (all maximal interleavings); %d schedules executed "
                     "on the implementation" % (work.sets, work.exhaustive_sets, work.executed))
    ctx.exhaustive = work.exhaustive_sets == work.sets
    # longer histories: single thread and 2-3 threads, random walks with early / late clock readings
    for k in range(200 if ctx.thorough else 24):
        nthreads = rng.choice([1, 1, 2, 3])
        programs = [[gen_op(rng) for _ in range(rng.randrange(4, 17 if nthreads == 1 else 8))]
                    for _ in range(nthreads)]
        for j in range(3):
            r = random_walk(ctx, programs, rng)
            ctx.count((programs, r["schedule"]), nontrivial=len(r["actions"]) > 3, kind="long-%dthr" % nthreads)
            if r["ok"] and r["modelled"] and j == 0:
                work.explicit.append((programs, r))
    read_grid(ctx, work)
    channel_receive_path(ctx, rng)
    # deterministic regression: a feed landing exactly at the deadline must be delivered
    programs = [[("feed", b"abc")], [("read", 10, 5)]]
    r = run_schedule(ctx, programs, [(1, None), (0, None), (1, 5)])
    ctx.count(("deadline", programs), kind="deadline")
    if r["ok"] and r["modelled"]:
        work.explicit.append((programs, r))
    try:
        compare_digests(ctx, work)
        compare_explicit(ctx, work.explicit)
    except Exception as e:  # noqa -- e.g. the translator aborted and the model did not build; the oracle above
        # has already run on every executed schedule, independently of the model
        ctx.disagree("model comparison could not run: %s" % str(e)[:300])
    if work.unmodelled:
        programs, r = work.unmodelled[0]
        ctx.disagree("an operation is not a single critical section (unlocked access or several lock regions): "
                     "the model's atomic actions do not describe this code",
                     case={"programs": programs, "schedule": [list(c) for c in r["schedule"]]}, impl=r["actions"])
    for programs, r in work.explicit[:2] + work.explicit[-1:]:
        ctx.sample({"programs": programs, "schedule": [list(c) for c in r["schedule"]], "impl_trace": r["trace"]})


def _unjson(v):
    """programs / schedule back from a replay file."""
    if isinstance(v, dict) and "hex" in v:
        return bytes.fromhex(v["hex"])
    if isinstance(v, list):
        return [_unjson(x) for x in v]
    return v


def replay(ctx, rep):
    import paramiko.buffered_pipe as bp
    case = rep["case"]
    programs = [[tuple(op) for op in p] for p in _unjson(case["programs"])]
    sched = [tuple(c) for c in _unjson(case["schedule"])]
    cls = ChanExec if case.get("rig") == "channel" else Exec
    saved = _pin_clock(bp)
    try:
        with pipe_factory():
            r = run_schedule(ctx, programs, sched, cls=cls)
        ctx.count((programs, sched), kind="replay")
        ctx.log("replay: %s; steps %r" % ("completed" if r["ok"] else r.get("why"), r["actions"]))
        if r["ok"] and r["modelled"] and cls is Exec:
            compare_explicit(ctx, [(programs, r)])
        ctx.count(("replay2", programs, sched), kind="replay")
    finally:
        _unpin_clock(bp, saved)
