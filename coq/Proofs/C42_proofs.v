From PV Require Import Bytes C42.
Open Scope Z_scope.
Lemma placeholder : upto_lf [] = [].
Proof. reflexivity. Qed.
