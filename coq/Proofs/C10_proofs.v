(* C10 - proofs about the re-key accounting model (Model/C10.v). *)
From Coq Require Import ZArith List Bool Lia ZifyBool.
From PV Require Import Bytes C10_gen C10.
Import ListNotations.
Open Scope Z_scope.

(* ---- basic facts ------------------------------------------------------------------------- *)
Lemma run_app c s a b : run c s (a ++ b) = run c (run c s a) b.
Proof. revert s. induction a as [|o a IH]; intros s; cbn; [reflexivity|apply IH]. Qed.

Lemma codes_app c s a b : codes c s (a ++ b) = codes c s a ++ codes c (run c s a) b.
Proof. revert s. induction a as [|o a IH]; intros s; cbn; [reflexivity|]. now rewrite IH. Qed.

Lemma trun_app c k t a b : trun c k t (a ++ b) = trun c k (trun c k t a) b.
Proof. revert t. induction a as [|e a IH]; intros t; cbn; [reflexivity|apply IH]. Qed.

Ltac dstate s := destruct s as [sb0 sp0 rb0 rp0 rbo0 rpo0 fl0 ic0].
Ltac psimp := cbn [sb sp rb rp rbo rpo flag ic fst snd].
Ltac tsimp := cbn [pk in_kex lki alive kexinits sb sp rb rp rbo rpo flag ic fst snd].

(* ---- trigger ------------------------------------------------------------------------------ *)
Lemma send_trigger c s len :
  RP c <= sp (send_op c s len) \/ RB c <= sb (send_op c s len) -> flag (send_op c s len) = true.
Proof.
  dstate s. unfold send_op. cbn [sb sp flag].
  destruct ((RP c <=? sp0 + 1) || (RB c <=? sb0 + len)) eqn:E; destruct fl0; cbn; intros H; try reflexivity.
  exfalso. apply orb_false_iff in E as [E1 E2]. lia.
Qed.

Lemma recv_trigger c s len :
  RP c <= rp (fst (recv_op c s len)) \/ RB c <= rb (fst (recv_op c s len)) ->
  flag (fst (recv_op c s len)) = true.
Proof.
  dstate s. unfold recv_op. cbn [rb rp flag rbo rpo].
  destruct fl0.
  - destruct ((OP c <=? rpo0 + 1) || (OB c <=? rbo0 + len)); cbn; reflexivity.
  - destruct ((RP c <=? rp0 + 1) || (RB c <=? rb0 + len)) eqn:E; cbn; intros H; try reflexivity.
    exfalso. apply orb_false_iff in E as [E1 E2]. lia.
Qed.

Lemma trigger_after_history c ops o :
  let s' := run c init (ops ++ [o]) in
  match o with
  | Send _ => RP c <= sp s' \/ RB c <= sb s' -> need_rekey s' = true
  | Recv _ => RP c <= rp s' \/ RB c <= rb s' -> need_rekey s' = true
  | _ => True
  end.
Proof.
  cbv zeta. rewrite run_app. cbn [run]. unfold need_rekey.
  destruct o; cbn [step fst]; try exact I.
  - apply send_trigger.
  - apply recv_trigger.
Qed.

(* exact moment of the trigger, from a state whose flag is clear *)
Lemma send_trigger_iff c s len :
  flag s = false ->
  (flag (send_op c s len) = true <-> RP c <= sp s + 1 \/ RB c <= sb s + len).
Proof.
  dstate s. cbn [flag sp sb]. intros ->. unfold send_op. cbn [sb sp flag].
  destruct ((RP c <=? sp0 + 1) || (RB c <=? sb0 + len)) eqn:E; cbn.
  - apply orb_true_iff in E. split; [intros _; lia|reflexivity].
  - apply orb_false_iff in E as [E1 E2]. split; [discriminate|lia].
Qed.

Lemma recv_trigger_iff c s len :
  flag s = false ->
  (flag (fst (recv_op c s len)) = true <-> RP c <= rp s + 1 \/ RB c <= rb s + len) /\
  snd (recv_op c s len) = c_ok.
Proof.
  dstate s. cbn [flag rp rb]. intros ->. unfold recv_op. cbn [rb rp flag].
  destruct ((RP c <=? rp0 + 1) || (RB c <=? rb0 + len)) eqn:E; cbn.
  - apply orb_true_iff in E. split; [split; [intros _; lia|reflexivity]|reflexivity].
  - apply orb_false_iff in E as [E1 E2]. split; [split; [discriminate|lia]|reflexivity].
Qed.

(* the request is made once: the overflow allowance restarts at the trigger and only there *)
Lemma trigger_once c s len :
  (flag s = false -> flag (send_op c s len) = true ->
     rpo (send_op c s len) = 0 /\ rbo (send_op c s len) = 0) /\
  (flag s = false -> flag (fst (recv_op c s len)) = true ->
     rpo (fst (recv_op c s len)) = 0 /\ rbo (fst (recv_op c s len)) = 0) /\
  (flag s = true ->
     flag (send_op c s len) = true /\ rpo (send_op c s len) = rpo s /\ rbo (send_op c s len) = rbo s /\
     flag (fst (recv_op c s len)) = true /\
     rpo (fst (recv_op c s len)) = rpo s + 1 /\ rbo (fst (recv_op c s len)) = rbo s + len).
Proof.
  dstate s. unfold send_op, recv_op. cbn [flag rpo rbo sb sp rb rp].
  destruct fl0; cbn [negb andb].
  - rewrite andb_false_r. destruct ((OP c <=? rpo0 + 1) || (OB c <=? rbo0 + len)); cbn;
      repeat split; intros; try discriminate; reflexivity.
  - rewrite andb_true_r.
    destruct ((RP c <=? sp0 + 1) || (RB c <=? sb0 + len)); destruct ((RP c <=? rp0 + 1) || (RB c <=? rb0 + len));
      cbn; repeat split; intros; try discriminate; reflexivity.
Qed.

(* the flag is raised by nothing but a threshold crossing *)
Lemma flag_only_by_crossing c s o :
  flag s = false -> flag (fst (step c s o)) = true ->
  match o with
  | Send len => RP c <= sp s + 1 \/ RB c <= sb s + len
  | Recv len => RP c <= rp s + 1 \/ RB c <= rb s + len
  | _ => False
  end.
Proof.
  intros F. destruct o; cbn [step fst].
  - apply send_trigger_iff; assumption.
  - apply (recv_trigger_iff c s len F).
  - dstate s. cbn in *. subst. unfold set_out, both_done. cbn.
    destruct (Z.lor ic0 1 =? 3); cbn; discriminate.
  - dstate s. cbn in *. subst. unfold set_in, both_done. cbn.
    destruct (Z.lor ic0 2 =? 3); cbn; discriminate.
  - congruence.
Qed.

Lemma trigger_exact c s len :
  flag s = false ->
  (flag (send_op c s len) = true <-> RP c <= sp s + 1 \/ RB c <= sb s + len) /\
  (flag (fst (recv_op c s len)) = true <-> RP c <= rp s + 1 \/ RB c <= rb s + len) /\
  snd (recv_op c s len) = c_ok /\
  flag (set_out s) = false /\ flag (set_in s) = false.
Proof.
  intros F. split; [exact (send_trigger_iff c s len F)|].
  destruct (recv_trigger_iff c s len F) as [A B]. split; [exact A|]. split; [exact B|].
  split.
  - destruct (flag (set_out s)) eqn:E; [|reflexivity].
    exact (match flag_only_by_crossing c s SetOut F E with end).
  - destruct (flag (set_in s)) eqn:E; [|reflexivity].
    exact (match flag_only_by_crossing c s SetIn F E with end).
Qed.

(* ---- init_count stays in {0,1,2} ------------------------------------------------------------ *)

Lemma step_ic_ok c s o : ic_ok s -> ic_ok (fst (step c s o)).
Proof.
  unfold ic_ok. dstate s. cbn [ic]. intros H.
  destruct o; cbn [step fst].
  - unfold send_op. cbn. destruct (_ && _); cbn; exact H.
  - unfold recv_op. cbn. destruct fl0; [destruct (_ || _)|destruct (_ || _)]; cbn; exact H.
  - unfold set_out, both_done. cbn [ic flag sb sp rb rp rbo rpo].
    destruct H as [-> | [-> | ->]]; cbn; tauto.
  - unfold set_in, both_done. cbn [ic flag sb sp rb rp rbo rpo].
    destruct H as [-> | [-> | ->]]; cbn; tauto.
  - exact H.
Qed.

Lemma run_ic_ok c s ops : ic_ok s -> ic_ok (run c s ops).
Proof. revert s. induction ops as [|o r IH]; intros s H; cbn; [exact H|]. apply IH, step_ic_ok, H. Qed.

Lemma reach_ic_ok c ops : ic_ok (run c init ops).
Proof. apply run_ic_ok. left. reflexivity. Qed.

(* ---- reset ---------------------------------------------------------------------------------- *)

Lemma reset_adjacent c ops :
  let s := run c init ops in
  (counters_zero (run c s [SetOut; SetIn]) /\ need_rekey (run c s [SetOut; SetIn]) = false) /\
  (counters_zero (run c s [SetIn; SetOut]) /\ need_rekey (run c s [SetIn; SetOut]) = false).
Proof.
  cbv zeta. pose proof (reach_ic_ok c ops) as H. destruct (run c init ops) as [sb0 sp0 rb0 rp0 rbo0 rpo0 fl0 ic0].
  unfold ic_ok in H. cbn [ic] in H. unfold counters_zero, need_rekey.
  destruct H as [-> | [-> | ->]]; cbn; repeat split; reflexivity.
Qed.

Lemma nrecv_nonneg ops : 0 <= nrecv ops.
Proof. induction ops as [|[]]; cbn [nrecv]; lia. Qed.
Lemma nsend_nonneg ops : 0 <= nsend ops.
Proof. induction ops as [|[]]; cbn [nsend]; lia. Qed.
Lemma brecv_nonneg ops : forallb op_len_ok ops = true -> 0 <= brecv ops.
Proof.
  induction ops as [|o r IH]; cbn [brecv forallb]; [lia|]. intros H. apply andb_true_iff in H as [H1 H2].
  specialize (IH H2). destruct o; cbn in H1; lia.
Qed.
Lemma bsend_nonneg ops : forallb op_len_ok ops = true -> 0 <= bsend ops.
Proof.
  induction ops as [|o r IH]; cbn [bsend forallb]; [lia|]. intros H. apply andb_true_iff in H as [H1 H2].
  specialize (IH H2). destruct o; cbn in H1; lia.
Qed.

(* traffic without cipher switches: init_count is untouched and the four traffic counters count *)
Lemma run_noset c mid : forall s,
  forallb (fun o => negb (is_set o)) mid = true ->
  let s' := run c s mid in
  ic s' = ic s /\ sp s' = sp s + nsend mid /\ sb s' = sb s + bsend mid /\
  rp s' = rp s + nrecv mid /\ rb s' = rb s + brecv mid.
Proof.
  induction mid as [|o r IH]; intros s H; cbn [run nsend bsend nrecv brecv].
  - cbv zeta. repeat split; lia.
  - cbn [forallb] in H. apply andb_true_iff in H as [H1 H2]. specialize (IH (fst (step c s o)) H2).
    cbv zeta in *. destruct IH as (I1 & I2 & I3 & I4 & I5).
    rewrite I1, I2, I3, I4, I5. clear I1 I2 I3 I4 I5.
    dstate s. destruct o; cbn [step fst is_set negb] in *; try discriminate.
    + unfold send_op. psimp. destruct (_ && _); psimp; repeat split; lia.
    + unfold recv_op. psimp. destruct fl0; [destruct (_ || _)|destruct (_ || _)]; psimp; repeat split; lia.
    + psimp. repeat split; lia.
Qed.

Lemma reset_with_traffic c s mid :
  ic s = 0 -> forallb (fun o => negb (is_set o)) mid = true ->
  (let s' := run c s (SetOut :: mid ++ [SetIn]) in
   rb s' = 0 /\ rp s' = 0 /\ rbo s' = 0 /\ rpo s' = 0 /\ need_rekey s' = false /\ ic s' = 0 /\
   sp s' = nsend mid /\ sb s' = bsend mid) /\
  (let s' := run c s (SetIn :: mid ++ [SetOut]) in
   sb s' = 0 /\ sp s' = 0 /\ need_rekey s' = false /\ ic s' = 0 /\
   rp s' = nrecv mid /\ rb s' = brecv mid).
Proof.
  intros Hic Hm. split; cbv zeta; cbn [run step fst]; rewrite run_app; cbn [run step fst].
  - pose proof (run_noset c mid (set_out s) Hm) as H. cbv zeta in H.
    destruct H as (I1 & I2 & I3 & I4 & I5).
    destruct (run c (set_out s) mid) as [sb1 sp1 rb1 rp1 rbo1 rpo1 fl1 ic1].
    dstate s. cbn [ic] in Hic. subst ic0.
    unfold set_out, both_done in *. cbn in I1, I2, I3, I4, I5. subst.
    unfold set_in, both_done, need_rekey. cbn. repeat split; lia.
  - pose proof (run_noset c mid (set_in s) Hm) as H. cbv zeta in H.
    destruct H as (I1 & I2 & I3 & I4 & I5).
    destruct (run c (set_in s) mid) as [sb1 sp1 rb1 rp1 rbo1 rpo1 fl1 ic1].
    dstate s. cbn [ic] in Hic. subst ic0.
    unfold set_in, both_done in *. cbn in I1, I2, I3, I4, I5. subst.
    unfold set_out, both_done, need_rekey. cbn. repeat split; lia.
Qed.

(* ---- drop ----------------------------------------------------------------------------------- *)
Lemma drop_iff c ops : forall s,
  flag s = true -> (ic s = 0 \/ ic s = 1) ->
  forallb (fun o => negb (is_set_in o)) ops = true ->
  forallb op_len_ok ops = true ->
  rpo s < OP c -> rbo s < OB c ->
  (dropped c s ops = true <-> OP c <= rpo s + nrecv ops \/ OB c <= rbo s + brecv ops).
Proof.
  unfold dropped.
  induction ops as [|o r IH]; intros s F I NS L Hp Hb; cbn [codes existsb nrecv brecv].
  - split; [discriminate|lia].
  - cbn [forallb] in NS, L. apply andb_true_iff in NS as [NS1 NS2]. apply andb_true_iff in L as [L1 L2].
    pose proof (nrecv_nonneg r) as N1. pose proof (brecv_nonneg r L2) as N2.
    dstate s. cbn [flag ic rpo rbo] in *. subst fl0.
    destruct o; cbn [step fst snd is_set_in negb op_len_ok] in *; try discriminate.
    + (* Send *)
      unfold send_op. cbn [flag negb andb]. rewrite andb_false_r. psimp.
      change (c_ok =? c_ssh) with false. cbn [orb].
      rewrite (IH (mkP (sb0 + len) (sp0 + 1) rb0 rp0 rbo0 rpo0 true ic0))
        by (psimp; first [assumption | reflexivity | lia]).
      psimp. tauto.
    + (* Recv *)
      unfold recv_op. psimp.
      destruct ((OP c <=? rpo0 + 1) || (OB c <=? rbo0 + len)) eqn:E; cbn [fst snd].
      * change (c_ssh =? c_ssh) with true. cbn [orb]. apply orb_true_iff in E.
        split; [intros _|reflexivity]. lia.
      * change (c_ok =? c_ssh) with false. cbn [orb]. apply orb_false_iff in E as [E1 E2].
        rewrite (IH (mkP sb0 sp0 (rb0 + len) (rp0 + 1) (rbo0 + len) (rpo0 + 1) true ic0))
          by (psimp; first [assumption | reflexivity | lia]).
        psimp. lia.
    + (* SetOut *)
      change (c_ok =? c_ssh) with false. cbn [orb].
      assert (E : set_out (mkP sb0 sp0 rb0 rp0 rbo0 rpo0 true ic0) = mkP 0 0 rb0 rp0 rbo0 rpo0 true 1)
        by (destruct I as [-> | ->]; reflexivity).
      rewrite E.
      rewrite (IH (mkP 0 0 rb0 rp0 rbo0 rpo0 true 1))
        by (psimp; first [assumption | reflexivity | lia | (right; reflexivity)]).
      psimp. tauto.
    + (* Idle *)
      unfold idle_op. cbn [flag]. change (c_needrekey =? c_ssh) with false. cbn [orb].
      rewrite (IH (mkP sb0 sp0 rb0 rp0 rbo0 rpo0 true ic0))
        by (psimp; first [assumption | reflexivity | lia]).
      psimp. tauto.
Qed.

(* from the operation that raised the flag *)
Lemma drop_after_trigger c s o ops :
  cfg_pos c -> flag s = false -> (ic s = 0 \/ ic s = 1) ->
  flag (fst (step c s o)) = true ->
  forallb (fun o => negb (is_set_in o)) ops = true ->
  forallb op_len_ok ops = true ->
  (dropped c (fst (step c s o)) ops = true <-> OP c <= nrecv ops \/ OB c <= brecv ops).
Proof.
  intros (P1 & P2 & P3 & P4) F I T NS L.
  pose proof (flag_only_by_crossing c s o F T) as X.
  pose proof (trigger_once c s) as O.
  destruct o; try contradiction; cbn [step fst] in *.
  - destruct (O len) as (O1 & _ & _). destruct (O1 F T) as [Z1 Z2].
    rewrite drop_iff; [rewrite Z1, Z2; lia | assumption | | assumption | assumption | lia | lia].
    dstate s. psimp. cbn [ic] in I. unfold send_op. psimp. destruct (_ && _); psimp; assumption.
  - destruct (O len) as (_ & O2 & _). destruct (O2 F T) as [Z1 Z2].
    rewrite drop_iff; [rewrite Z1, Z2; lia | assumption | | assumption | assumption | lia | lia].
    dstate s. cbn [ic flag] in I, F. subst. unfold recv_op. psimp. destruct (_ || _); psimp; assumption.
Qed.

(* ---- run loop: KEXINIT is sent ------------------------------------------------------------------ *)
Lemma kexinit_sent c klen t r :
  alive t = true -> flag (pk t) = true -> in_kex t = false ->
  kexinits (titer c klen t r) = kexinits t + 1 /\
  idle_returns t = true /\
  (r = RIdle -> in_kex (titer c klen t r) = true /\ alive (titer c klen t r) = true).
Proof.
  destruct t as [p ik lk al kx]. cbn [alive pk in_kex kexinits]. intros -> F ->.
  unfold idle_returns. cbn [pk]. split; [|split; [exact F|]].
  - unfold titer. cbn [alive negb pk in_kex]. rewrite F. cbn [andb negb].
    destruct r; cbn [send_kex_init kexinits pk in_kex lki alive rd_len]; try reflexivity;
      match goal with |- context [recv_op ?c ?s ?l] => destruct (recv_op c s l) as [p2 code] end;
      destruct (code =? c_ssh); cbn; try reflexivity.
  - intros ->. unfold titer. cbn [alive negb pk in_kex]. rewrite F. cbn. split; reflexivity.
Qed.

(* a crossing caused by a packet read or by another thread's send is followed by KEXINIT in the
   very next iteration, whatever that iteration reads (nothing at all included) *)
Lemma trigger_then_kexinit c klen t e r :
  alive t = true -> in_kex t = false -> flag (pk t) = false ->
  (match e with TSend _ | TIter (RData _) => True | _ => False end) ->
  flag (pk (tstep c klen t e)) = true ->
  kexinits (titer c klen (tstep c klen t e) r) = kexinits t + 1.
Proof.
  destruct t as [p ik lk al kx]. cbn [alive pk in_kex kexinits]. intros -> -> F E T.
  destruct e as [[| len | | |]|len]; try contradiction.
  - (* RData *)
    cbn [tstep] in *. unfold titer at 2. unfold titer in T. cbn [alive negb pk in_kex] in *.
    rewrite F in *. cbn [andb] in *. cbn [rd_len pk in_kex lki alive kexinits] in *.
    destruct (recv_trigger_iff c p len F) as [_ K].
    destruct (recv_op c p len) as [p2 code] eqn:R. rewrite ?R in K, T. cbn [snd] in K. subst code.
    change (c_ok =? c_ssh) with false in *. cbn iota in *. cbn [pk lki in_kex kexinits] in *.
    apply (kexinit_sent c klen (mkT p2 false lk true kx) r); cbn; auto.
  - cbn [tstep tsend alive] in *. cbn [pk] in T.
    apply (kexinit_sent c klen (mkT (send_op c p len) false lk true kx) r); cbn; auto.
Qed.

(* ---- a peer that never re-keys is dropped by the transport ------------------------------------------ *)

Lemma ndata_nonneg es : 0 <= ndata es.
Proof. induction es as [|[[]|]]; cbn [ndata]; lia. Qed.
Lemma bdata_nonneg es : forallb is_plain es = true -> 0 <= bdata es.
Proof.
  induction es as [|e r IH]; cbn [bdata forallb]; [lia|]. intros H. apply andb_true_iff in H as [H1 H2].
  specialize (IH H2). destruct e as [[]|]; cbn in H1; try discriminate; lia.
Qed.

Lemma trun_dead c k es : forall t, alive t = false -> alive (trun c k t es) = false.
Proof.
  induction es as [|e r IH]; intros t H; cbn [trun]; [exact H|]. apply IH.
  destruct e; cbn [tstep]; [unfold titer|unfold tsend]; rewrite H; cbn; exact H.
Qed.

Lemma refuser_dropped c k es : forall t,
  alive t = true -> flag (pk t) = true -> (ic (pk t) = 0 \/ ic (pk t) = 1) ->
  forallb is_plain es = true ->
  rpo (pk t) < OP c -> rbo (pk t) < OB c ->
  (alive (trun c k t es) = false <-> OP c <= rpo (pk t) + ndata es \/ OB c <= rbo (pk t) + bdata es).
Proof.
  induction es as [|e r IH]; intros t A F I PL Hp Hb; cbn [trun ndata bdata].
  - rewrite A. split; [discriminate|lia].
  - cbn [forallb] in PL. apply andb_true_iff in PL as [P1 P2].
    pose proof (ndata_nonneg r) as N1. pose proof (bdata_nonneg r P2) as N2.
    destruct t as [p ik lk al kx]. cbn [alive pk] in *. subst al.
    dstate p. cbn [flag ic rpo rbo] in *. subst fl0.
    destruct e as [[| len | | |]|len]; cbn [is_plain] in P1; try discriminate.
    + (* idle iteration *)
      cbn [tstep]. unfold titer. cbn [alive negb pk in_kex flag andb].
      destruct ik; cbn [negb].
      * rewrite (IH (mkT (mkP sb0 sp0 rb0 rp0 rbo0 rpo0 true ic0) true lk true kx)); cbn; auto. tauto.
      * unfold send_kex_init, send_op. cbn [pk flag negb andb]. rewrite andb_false_r.
        cbn [sb sp rb rp rbo rpo flag ic alive kexinits].
        rewrite (IH (mkT (mkP (sb0 + k) (sp0 + 1) rb0 rp0 rbo0 rpo0 true ic0) true true true (kx + 1)));
          cbn; auto. tauto.
    + (* data packet *)
      cbn [tstep]. unfold titer. cbn [alive negb pk in_kex flag andb rd_len].
      assert (Hrecv : forall sbx spx,
        let p1 := mkP sbx spx rb0 rp0 rbo0 rpo0 true ic0 in
        forall ik1 lk1 kx1,
        (alive (trun c k
           (let '(p2, code) := recv_op c p1 len in
            if code =? c_ssh then mkT p2 ik1 lk1 false kx1 else mkT p2 ik1 lk1 true kx1) r) = false
         <-> OP c <= rpo0 + (1 + ndata r) \/ OB c <= rbo0 + (len + bdata r))).
      { intros sbx spx p1 ik1 lk1 kx1. subst p1. unfold recv_op. cbn [flag rb rp rbo rpo sb sp ic].
        destruct ((OP c <=? rpo0 + 1) || (OB c <=? rbo0 + len)) eqn:E.
        - change (c_ssh =? c_ssh) with true. cbn iota. rewrite trun_dead by reflexivity.
          apply orb_true_iff in E. split; [intros _; lia|reflexivity].
        - change (c_ok =? c_ssh) with false. cbn iota. apply orb_false_iff in E as [E1 E2].
          rewrite IH by (cbn [alive pk flag ic rpo rbo]; first [assumption|reflexivity|lia]).
          cbn [pk rpo rbo]. lia. }
      destruct ik; cbn [negb].
      * apply Hrecv.
      * unfold send_kex_init, send_op. cbn [pk flag negb andb]. rewrite andb_false_r.
        cbn [sb sp rb rp rbo rpo flag ic alive kexinits in_kex lki]. apply Hrecv.
    + (* send by another thread *)
      cbn [tstep tsend alive pk]. unfold send_op. cbn [flag negb andb]. rewrite andb_false_r.
      cbn [sb sp rb rp rbo rpo flag ic in_kex lki kexinits].
      rewrite (IH (mkT (mkP (sb0 + len) (sp0 + 1) rb0 rp0 rbo0 rpo0 true ic0) ik lk true kx)); cbn; auto. tauto.
Qed.

(* ---- any number of crossings -------------------------------------------------------------------------- *)

Definition shiftk (j : Z) (t : tstate) : tstate :=
  mkT (pk t) (in_kex t) (lki t) (alive t) (kexinits t + j).

Lemma tstep_shift c k j t e : tstep c k (shiftk j t) e = shiftk j (tstep c k t e).
Proof.
  destruct t as [p ik lk al kx]. unfold shiftk. cbn [pk in_kex lki alive kexinits].
  destruct e as [r|len]; cbn [tstep].
  - unfold titer. cbn [alive pk in_kex]. destruct al; cbn [negb]; [|reflexivity].
    destruct (flag p && negb ik); cbn [send_kex_init pk in_kex lki alive kexinits];
      destruct r; cbn [rd_len];
      try match goal with |- context [recv_op ?c ?s ?l] => destruct (recv_op c s l) as [p2 code] end;
      try match goal with |- context [if ?b =? c_ssh then _ else _] => destruct (b =? c_ssh) end;
      cbn [pk in_kex lki alive kexinits send_kex_init];
      try destruct lk; unfold send_kex_init; cbn [pk in_kex lki alive kexinits];
      try reflexivity; f_equal; lia.
  - unfold tsend. cbn. destruct al; reflexivity.
Qed.

Lemma trun_shift c k j es : forall t, trun c k (shiftk j t) es = shiftk j (trun c k t es).
Proof. induction es as [|e r IH]; intros t; cbn [trun]; [reflexivity|]. rewrite tstep_shift. apply IH. Qed.

(* invariant of ordinary traffic (sends, data packets, idle reads) between two exchanges *)
Definition quiet_inv (k : Z) (t : tstate) : Prop :=
  alive t = false \/
  (ic (pk t) = 0 /\ lki t = in_kex t /\ (in_kex t = true -> flag (pk t) = true) /\
   kexinits t = k + (if in_kex t then 1 else 0)).

Lemma quiet_step c klen k t e : is_plain e = true -> quiet_inv k t -> quiet_inv k (tstep c klen t e).
Proof.
  intros P [D|(I & L & K & X)].
  - left. destruct e; cbn [tstep]; [unfold titer|unfold tsend]; rewrite D; cbn; exact D.
  - destruct t as [p ik lk al kx]. cbn [alive pk in_kex lki kexinits] in *. subst lk.
    destruct al; [|left; destruct e; cbn [tstep]; [unfold titer|unfold tsend]; reflexivity].
    dstate p. cbn [ic flag] in *. subst ic0.
    destruct e as [[| len | | |]|len]; cbn [is_plain] in P; try discriminate; cbn [tstep].
    + (* idle iteration *)
      unfold titer. cbn [alive negb pk in_kex flag].
      destruct fl0, ik; cbn [andb negb]; try (specialize (K eq_refl); discriminate).
      * right. cbn [alive pk in_kex lki kexinits ic flag]. repeat split; auto.
      * right. unfold send_kex_init, send_op. cbn [pk flag negb andb]. rewrite andb_false_r.
        cbn [alive pk in_kex lki kexinits ic flag]. repeat split; auto. lia.
      * right. cbn [alive pk in_kex lki kexinits ic flag]. repeat split; auto.
    + (* data packet *)
      unfold titer. cbn [alive negb pk in_kex flag rd_len].
      destruct fl0, ik; cbn [andb negb]; try (specialize (K eq_refl); discriminate).
      * unfold recv_op. tsimp. destruct (_ || _); change (c_ssh =? c_ssh) with true;
          change (c_ok =? c_ssh) with false; cbn iota; [left; reflexivity|right].
        cbn [alive pk in_kex lki kexinits ic flag]. repeat split; auto.
      * unfold send_kex_init, send_op, recv_op. cbn [pk flag negb andb]. rewrite andb_false_r.
        cbn [flag sb sp rb rp rbo rpo ic in_kex lki alive kexinits].
        destruct (_ || _); change (c_ssh =? c_ssh) with true;
          change (c_ok =? c_ssh) with false; cbn iota; [left; reflexivity|right].
        cbn [alive pk in_kex lki kexinits ic flag]. repeat split; auto. lia.
      * unfold recv_op. tsimp. destruct (_ || _); change (c_ok =? c_ssh) with false; cbn iota;
          right; cbn [alive pk in_kex lki kexinits ic flag]; repeat split; auto; discriminate.
    + (* send by another thread *)
      unfold tsend. cbn [alive pk]. right. unfold send_op. cbn [flag sb sp rb rp rbo rpo ic].
      destruct fl0, ik; cbn [negb andb]; try (specialize (K eq_refl); discriminate).
      * rewrite andb_false_r. cbn [alive pk in_kex lki kexinits ic flag]. repeat split; auto.
      * rewrite andb_false_r. cbn [alive pk in_kex lki kexinits ic flag]. repeat split; auto.
      * rewrite andb_true_r. destruct (_ || _); cbn [alive pk in_kex lki kexinits ic flag];
          repeat split; auto; discriminate.
Qed.

Lemma quiet_run c klen k es : forall t,
  forallb is_plain es = true -> quiet_inv k t -> quiet_inv k (trun c klen t es).
Proof.
  induction es as [|e r IH]; intros t P Q; cbn [trun]; [exact Q|].
  cbn [forallb] in P. apply andb_true_iff in P as [P1 P2]. apply IH; [exact P2|]. apply quiet_step; assumption.
Qed.


(* the three iterations of a peer-answered exchange, with our KEXINIT already out *)
Lemma iter_peer_kexinit c klen sb0 sp0 rb0 rp0 rbo0 rpo0 i kx a :
  (OP c <=? rpo0 + 1) || (OB c <=? rbo0 + a) = false ->
  titer c klen (mkT (mkP sb0 sp0 rb0 rp0 rbo0 rpo0 true i) true true true kx) (RKexInit a) =
  mkT (mkP sb0 sp0 (rb0 + a) (rp0 + 1) (rbo0 + a) (rpo0 + 1) true i) true true true kx.
Proof.
  intros E. unfold titer. tsimp. cbn [negb andb rd_len]. unfold recv_op. tsimp. rewrite E.
  change (c_ok =? c_ssh) with false. cbn iota. tsimp. reflexivity.
Qed.

Lemma iter_peer_kexdone c klen sb0 sp0 rb0 rp0 rbo0 rpo0 kx b n :
  (OP c <=? rpo0 + 1) || (OB c <=? rbo0 + b) = false ->
  titer c klen (mkT (mkP sb0 sp0 rb0 rp0 rbo0 rpo0 true 0) true true true kx) (RKexDone b n) =
  mkT (mkP 0 0 (rb0 + b) (rp0 + 1) (rbo0 + b) (rpo0 + 1) true 1) true true true kx.
Proof.
  intros E. unfold titer. tsimp. cbn [negb andb rd_len]. unfold recv_op. tsimp. rewrite E.
  change (c_ok =? c_ssh) with false. cbn iota. tsimp.
  unfold send_op. tsimp. cbn [negb]. rewrite andb_false_r. tsimp.
  unfold set_out, both_done. tsimp. reflexivity.
Qed.

Lemma iter_peer_newkeys c klen sb0 sp0 rb0 rp0 rbo0 rpo0 kx d :
  (OP c <=? rpo0 + 1) || (OB c <=? rbo0 + d) = false ->
  titer c klen (mkT (mkP sb0 sp0 rb0 rp0 rbo0 rpo0 true 1) true true true kx) (RNewKeys d) =
  mkT (mkP sb0 sp0 0 0 0 0 false 0) false false true kx.
Proof.
  intros E. unfold titer. tsimp. cbn [negb andb rd_len]. unfold recv_op. tsimp. rewrite E.
  change (c_ok =? c_ssh) with false. cbn iota. tsimp.
  unfold set_in, both_done. tsimp. reflexivity.
Qed.

Lemma iter_idle_sends c klen sb0 sp0 rb0 rp0 rbo0 rpo0 i kx lk :
  titer c klen (mkT (mkP sb0 sp0 rb0 rp0 rbo0 rpo0 true i) false lk true kx) RIdle =
  mkT (mkP (sb0 + klen) (sp0 + 1) rb0 rp0 rbo0 rpo0 true i) true true true (kx + 1).
Proof.
  unfold titer. tsimp. cbn [negb andb]. unfold send_kex_init, send_op. tsimp. cbn [negb].
  rewrite andb_false_r. reflexivity.
Qed.

Lemma iter_idle_nothing c klen p kx lk :
  titer c klen (mkT p true lk true kx) RIdle = mkT p true lk true kx.
Proof. unfold titer. tsimp. cbn [negb]. rewrite andb_false_r. reflexivity. Qed.

Lemma one_round c klen x k :
  round_ok c klen x -> trun c klen (tfresh k) (round_events x) = tfresh (k + 1).
Proof.
  destruct x as [tr [[[a b] n] d]]. unfold round_ok, round_events.
  intros (PL & A & F & Hp & Hb & Ha & Hbb & Hd).
  rewrite trun_app.
  change (tfresh k) with (shiftk k (tfresh 0)) at 1.
  replace (tfresh (k + 1)) with (shiftk k (tfresh 1))
    by (unfold shiftk, tfresh; cbn [pk in_kex lki alive kexinits]; f_equal; lia).
  rewrite !trun_shift. f_equal.
  pose proof (quiet_run c klen 0 tr (tfresh 0) PL) as Q.
  assert (Q0 : quiet_inv 0 (tfresh 0)) by (right; cbn; repeat split; auto; discriminate).
  specialize (Q Q0). clear Q0.
  destruct (trun c klen (tfresh 0) tr) as [p ik lk al kx]. cbn [alive pk] in *. subst al.
  destruct Q as [D|(I & L & K & X)]; [discriminate|].
  cbn [pk in_kex lki kexinits] in *. subst lk.
  dstate p. cbn [flag ic rpo rbo] in *. subst fl0 ic0.
  assert (E1 : (OP c <=? rpo0 + 1) || (OB c <=? rbo0 + a) = false) by (apply orb_false_iff; lia).
  assert (E2 : (OP c <=? rpo0 + 1 + 1) || (OB c <=? rbo0 + a + b) = false) by (apply orb_false_iff; lia).
  assert (E3 : (OP c <=? rpo0 + 1 + 1 + 1) || (OB c <=? rbo0 + a + b + d) = false) by (apply orb_false_iff; lia).
  unfold rekey_round. cbn [trun tstep].
  destruct ik.
  - rewrite iter_idle_nothing.
    rewrite iter_peer_kexinit by exact E1. rewrite iter_peer_kexdone by exact E2.
    rewrite iter_peer_newkeys by exact E3. unfold tfresh, init. f_equal. lia.
  - rewrite iter_idle_sends.
    rewrite iter_peer_kexinit by exact E1. rewrite iter_peer_kexdone by exact E2.
    rewrite iter_peer_newkeys by exact E3. unfold tfresh, init. f_equal. lia.
Qed.

Lemma repeat_rounds c klen rounds : forall k,
  Forall (round_ok c klen) rounds ->
  trun c klen (tfresh k) (flat_map round_events rounds) = tfresh (k + Z.of_nat (length rounds)).
Proof.
  induction rounds as [|x r IH]; intros k H.
  - cbn. f_equal. lia.
  - inversion H as [|? ? Hx Hr]; subst. cbn [flat_map]. rewrite trun_app.
    rewrite (one_round c klen x k Hx). rewrite IH by assumption.
    f_equal. cbn [length]. lia.
Qed.

(* ---- the real thresholds -------------------------------------------------------------------------------- *)
Lemma real_cfg_pos : cfg_pos real_cfg.
Proof. unfold cfg_pos, real_cfg. cbn. unfold gen_REKEY_PACKETS, gen_REKEY_BYTES,
  gen_REKEY_PACKETS_OVERFLOW_MAX, gen_REKEY_BYTES_OVERFLOW_MAX. lia. Qed.
