(* C02 proofs: what a delivered message was authenticated by *)
From PV Require Import Bytes C01 C01_proofs C02.
From Coq Require Import ZArith List Bool Lia ZifyBool.
Import ListNotations.
Open Scope Z_scope.

Section Inv.
Variable P : prims.
Notation FS := (list Z).

Ltac inv_step H :=
  match type of H with
  | context [match ftake ?n ?b with _ => _ end] =>
      let E := fresh "Et" in destruct (ftake n b) as [[? ?]|] eqn:E; try discriminate H
  | context [if ?c then _ else _] =>
      let E := fresh "Ec" in destruct c eqn:E; try discriminate H
  | context [match a_dec ?Q ?k ?iv ?c ?a with _ => _ end] =>
      let E := fresh "Ea" in destruct (a_dec Q k iv c a) eqn:E; try discriminate H
  | context [match inc_iv ?iv with _ => _ end] =>
      let E := fresh "Ei" in destruct (inc_iv iv) eqn:E; try discriminate H
  | context [match finish ?Q ?r ?m ?sz ?pk ?ev with _ => _ end] =>
      let E := fresh "Ef" in destruct (finish Q r m sz pk ev) as [[[? ?] ?]|] eqn:E; try discriminate H
  end.

Lemma finish_ev r m sz pk ev p ev' r' : finish P r m sz pk ev = Ok (p, ev', r') -> ev' = ev.
Proof.
  unfold finish. destruct pk as [|pad pk]; [discriminate|].
  destruct (match p_z r with
            | Some z => bind (z_decomp P z (py_slice1 (pad :: pk) (sz - pad))) (fun dz => Ok (fst dz, Some (snd dz)))
            | None => Ok (py_slice1 (pad :: pk) (sz - pad), None)
            end) as [pz|]; cbn [bind]; [|discriminate].
  destruct (((p_seq r + 1) mod 2 ^ 32 =? 0) && negb (p_kex r)); [discriminate|].
  destruct (fst pz); [discriminate|]. intros H. now injection H.
Qed.

Ltac fin_ev :=
  match goal with E : finish _ _ _ _ _ _ = Ok (_, ?a, _) |- _ =>
    let X := fresh in pose proof (finish_ev _ _ _ _ _ _ _ _ E) as X; subst a end.

(* C02_no_deliver_before_check: a payload is produced only by `finish`, and only after the tag
   comparison (constant_time_bytes_eq / AEAD decrypt) succeeded on bytes bound to the current
   sequence number / IV *)
Lemma deliver_inv r buf p ev r' rest :
  read_message P FS ftake r buf = Done (p, ev, r') rest ->
  match p_mode r with
  | Plain => True
  | Classic c k =>
      0 < p_msz r ->
      exists size packet tag m',
        ev = EvMac (mac_input (p_seq r) size packet) tag /\
        constant_time_bytes_eq (mac_tag P k (p_msz r) (mac_input (p_seq r) size packet)) tag = true /\
        finish P r m' size packet ev = Ok (p, ev, r')
  | Etm c k =>
      exists size packet tag,
        ev = EvMac (mac_input (p_seq r) size packet) tag /\
        constant_time_bytes_eq (mac_tag P k (p_msz r) (mac_input (p_seq r) size packet)) tag = true /\
        finish P r (Etm (snd (c_dec P c packet)) k) size (fst (c_dec P c packet)) ev = Ok (p, ev, r')
  | Aead k iv =>
      exists aad ct pt iv',
        ev = EvAead iv aad ct /\ a_dec P k iv ct aad = Some pt /\ inc_iv iv = Ok iv' /\
        finish P r (Aead k iv') (be_decode aad) pt ev = Ok (p, ev, r')
  end.
Proof.
  intros H. unfold read_message, read_body, read_classic in H. cbv zeta in H.
  unfold rbind, rtake, rlift, rfail, rret in H.
  destruct (p_mode r) as [|c k|c k|k iv] eqn:Em.
  - exact I.
  - intros Hm. cbv beta iota in H. repeat inv_step H; cbv beta iota in H; repeat inv_step H; try lia.
    fin_ev. injection H as <- <- <-.
    do 4 eexists. split; [reflexivity|]. split; [|eassumption].
    match goal with E : negb _ = false |- _ => apply negb_false_iff in E; exact E end.
  - repeat inv_step H. fin_ev. injection H as <- <- <-.
    do 3 eexists. split; [reflexivity|]. split; [|eassumption].
    match goal with E : negb _ = false |- _ => apply negb_false_iff in E; exact E end.
  - repeat inv_step H. unfold bind in H. repeat inv_step H. fin_ev. injection H as <- <- <-.
    do 4 eexists. repeat split; eassumption || reflexivity.
Qed.

Lemma ftake_bytes n buf x rest : bytes_ok buf = true -> ftake n buf = Some (x, rest) -> bytes_ok x = true.
Proof.
  intros Hb H. apply ftake_inv in H as [-> _]. rewrite bytes_ok_app in Hb.
  now apply andb_true_iff in Hb as [Hx _].
Qed.

Lemma be4_range l : bytes_ok l = true -> 0 <= be_decode (firstn 4 l) < 2 ^ 32.
Proof.
  intros Hb. pose proof (be_decode_range (firstn 4 l) (bytes_ok_firstn 4 l Hb)) as R.
  assert (L : (length (firstn 4 l) <= 4)%nat) by (rewrite firstn_length; lia).
  assert (256 ^ Z.of_nat (length (firstn 4 l)) <= 256 ^ 4) by (apply Z.pow_le_mono_r; lia).
  change (256 ^ 4) with (2 ^ 32) in *. lia.
Qed.

(* encrypt-then-MAC: as deliver_inv, and the length field (read in the clear from a byte
   stream) is a 32-bit value *)
Lemma deliver_inv_etm r buf p ev r' rest c k :
  p_mode r = Etm c k -> bytes_ok buf = true ->
  read_message P FS ftake r buf = Done (p, ev, r') rest ->
  exists size packet tag,
    0 <= size < 2 ^ 32 /\
    ev = EvMac (mac_input (p_seq r) size packet) tag /\
    constant_time_bytes_eq (mac_tag P k (p_msz r) (mac_input (p_seq r) size packet)) tag = true /\
    finish P r (Etm (snd (c_dec P c packet)) k) size (fst (c_dec P c packet)) ev = Ok (p, ev, r').
Proof.
  intros Em Hb H. unfold read_message, read_body in H. cbv zeta in H.
  unfold rbind, rtake, rlift, rfail, rret in H. rewrite Em in H.
  repeat inv_step H. fin_ev. injection H as <- <- <-.
  do 3 eexists. split; cycle 1.
  - split; [reflexivity|]. split; [|eassumption].
    match goal with E : negb _ = false |- _ => apply negb_false_iff in E; exact E end.
  - apply be4_range. eapply ftake_bytes; eauto.
Qed.
End Inv.

Section Step.
Variable P : prims.
Notation FS := (list Z).

(* AEAD: in a given receiver state the authenticated (iv, aad, ciphertext) determines the delivered
   payload and the next state: a stream accepted with the sender's triple delivers the sender's message *)
Theorem aead_step r k iv T W p ev r' rest ph evh rh resth :
  p_mode r = Aead k iv ->
  read_message P FS ftake r T = Done (p, ev, r') rest ->
  read_message P FS ftake r W = Done (ph, evh, rh) resth ->
  ev = evh -> p = ph /\ r' = rh.
Proof.
  intros Em H1 H2 E. apply deliver_inv in H1. apply deliver_inv in H2. rewrite Em in H1, H2.
  destruct H1 as (aad & ct & pt & iv1 & E1 & D1 & I1 & F1).
  destruct H2 as (aad2 & ct2 & pt2 & iv2 & E2 & D2 & I2 & F2).
  rewrite E1 in F1, E. rewrite E2 in F2, E. injection E as <- <-. clear E1 E2. rewrite D1 in D2. injection D2 as <-.
  rewrite I1 in I2. injection I2 as <-. rewrite F1 in F2. injection F2 as <- <-. auto.
Qed.

Theorem etm_step r c k T W p ev r' rest ph evh rh resth :
  p_mode r = Etm c k -> bytes_ok T = true -> bytes_ok W = true ->
  read_message P FS ftake r T = Done (p, ev, r') rest ->
  read_message P FS ftake r W = Done (ph, evh, rh) resth ->
  ev = evh -> p = ph /\ r' = rh.
Proof.
  intros Em B1 B2 H1 H2 E.
  destruct (deliver_inv_etm P r T p ev r' rest c k Em B1 H1) as (sz & pk & tg & R1 & E1 & _ & F1).
  destruct (deliver_inv_etm P r W ph evh rh resth c k Em B2 H2) as (sz2 & pk2 & tg2 & R2 & E2 & _ & F2).
  rewrite E1 in F1, E. rewrite E2 in F2, E. pose proof (f_equal (fun e => match e with EvMac m _ => m | _ => [] end) E) as Em2.
  pose proof (f_equal (fun e => match e with EvMac _ t => t | _ => [] end) E) as Et2.
  cbv beta iota in Em2, Et2. subst tg2. clear E E1 E2. unfold mac_input in Em2.
  apply app_inv_head in Em2. apply app_inv_len in Em2 as [Es <-]; [|now rewrite !be_encode_length].
  assert (sz2 = sz).
  { apply (f_equal be_decode) in Es. rewrite !be4_roundtrip in Es by assumption. now symmetry. }
  subst sz2. unfold mac_input in F1, F2. rewrite F2 in F1. injection F1 as <- <-. auto.
Qed.
End Step.
