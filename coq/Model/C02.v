(* C02 — tampered ciphertext is never accepted as different data.
   The packet model is shared with C01 (Model/C01.v): read_message with its ghost `authev`
   output (what was authenticated before a payload was produced), constant_time_bytes_eq,
   read_many.  This file adds the vocabulary of the symbolic adversary argument. *)
From PV Require Import Bytes C01.
From Coq Require Import ZArith List Bool.
Import ListNotations.
Open Scope Z_scope.

Definition is_prefix {A} (a b : list A) : Prop := exists t, b = a ++ t.

(* the sender's log: the authenticated events of the messages it produced (MAC input + tag,
   or AEAD iv/aad/ciphertext), as the honest receiver run reports them *)
Definition sender_log (P : prims) (r : pstate P) (wire : list Z) : list authev :=
  let '(_, evs, _, _, _) := read_many_flat P (S (length wire)) r wire in evs.

(* symbolic (Dolev-Yao) premise: every tag / AEAD ciphertext the receiver accepted while reading
   the adversary's stream was produced by the key owner for exactly these bytes *)
Definition authentic (log accepted : list authev) : Prop := Forall (fun ev => In ev log) accepted.
