"""Translator for C14 / C15 / C16 (shared): derives from the working tree's source, fail-closed,
the constants the models use -- message numbers, disconnect reason codes, AUTH_* / OPEN_* values,
the failure limit of AuthHandler._send_auth_result, HIGHEST_USERAUTH_MESSAGE_ID and the shape of the
guard in Transport._ensure_authed, the key sets of Transport._handler_table,
Transport._channel_handler_table and the server / gssapi auth handler tables.
Anything it does not recognise raises (the check then reports a broken obligation)."""
import ast
import os


class Abort(Exception):
    pass


def _consts(path):
    """Module-level integer constants of paramiko/common.py (NAME = int, tuple = range(..))."""
    tree = ast.parse(open(path).read())
    env = {}
    for node in tree.body:
        if not isinstance(node, ast.Assign) or len(node.targets) != 1:
            continue
        t, v = node.targets[0], node.value
        if isinstance(t, ast.Name) and isinstance(v, ast.Constant) and isinstance(v.value, int) \
                and not isinstance(v.value, bool):
            env[t.id] = v.value
        elif isinstance(t, ast.Tuple) and isinstance(v, ast.Call) and isinstance(v.func, ast.Name) \
                and v.func.id == "range" and all(isinstance(a, ast.Constant) for a in v.args):
            args = [a.value for a in v.args]
            vals = list(range(*args))
            names = [e.id for e in t.elts if isinstance(e, ast.Name)]
            if len(names) != len(t.elts) or len(names) != len(vals):
                raise Abort("common.py: cannot evaluate %s" % ast.dump(node)[:120])
            env.update(zip(names, vals))
        elif isinstance(t, ast.Tuple) and isinstance(v, ast.Tuple) and len(t.elts) == len(v.elts) \
                and all(isinstance(e, ast.Name) for e in t.elts) \
                and all(isinstance(e, ast.Constant) and isinstance(e.value, int) for e in v.elts):
            env.update((a.id, b_.value) for a, b_ in zip(t.elts, v.elts))
        elif isinstance(t, ast.Name) and isinstance(v, ast.Name) and v.id in env:
            env[t.id] = env[v.id]
    return env


def _find(tree, cls, fn):
    for c in ast.walk(tree):
        if isinstance(c, ast.ClassDef) and c.name == cls:
            for f in c.body:
                if isinstance(f, ast.FunctionDef) and f.name == fn:
                    return f
    raise Abort("%s.%s not found" % (cls, fn))


def _dict_keys(d, env, what):
    if not isinstance(d, ast.Dict):
        raise Abort("%s is not a dict literal" % what)
    out = []
    for k in d.keys:
        if not isinstance(k, ast.Name) or k.id not in env:
            raise Abort("%s: key %s is not a known constant" % (what, ast.dump(k)[:60]))
        out.append(env[k.id])
    return sorted(out)


def _is_self_attr(n, attr):
    return isinstance(n, ast.Attribute) and n.attr == attr and isinstance(n.value, ast.Name) and n.value.id == "self"


def generate(repo):
    env = _consts(os.path.join(repo, "paramiko", "common.py"))
    need = ["MSG_DISCONNECT", "MSG_SERVICE_REQUEST", "MSG_SERVICE_ACCEPT", "MSG_USERAUTH_REQUEST",
            "MSG_USERAUTH_FAILURE", "MSG_USERAUTH_SUCCESS", "MSG_USERAUTH_BANNER", "MSG_USERAUTH_PK_OK",
            "MSG_USERAUTH_INFO_REQUEST", "MSG_USERAUTH_INFO_RESPONSE", "MSG_USERAUTH_GSSAPI_RESPONSE",
            "MSG_USERAUTH_GSSAPI_TOKEN", "MSG_USERAUTH_GSSAPI_MIC", "MSG_GLOBAL_REQUEST", "MSG_REQUEST_FAILURE",
            "MSG_CHANNEL_OPEN", "MSG_CHANNEL_OPEN_FAILURE", "HIGHEST_USERAUTH_MESSAGE_ID",
            "DISCONNECT_SERVICE_NOT_AVAILABLE", "DISCONNECT_NO_MORE_AUTH_METHODS_AVAILABLE",
            "AUTH_SUCCESSFUL", "AUTH_PARTIALLY_SUCCESSFUL", "AUTH_FAILED",
            "OPEN_FAILED_ADMINISTRATIVELY_PROHIBITED"]
    for n in need:
        if n not in env:
            raise Abort("common.py: constant %s not found" % n)

    # ---- auth_handler.py
    atree = ast.parse(open(os.path.join(repo, "paramiko", "auth_handler.py")).read())
    sar = _find(atree, "AuthHandler", "_send_auth_result")
    limits = []
    for n in ast.walk(sar):
        if isinstance(n, ast.If) and isinstance(n.test, ast.Compare) and _is_self_attr(n.test.left, "auth_fail_count"):
            c = n.test
            if len(c.ops) != 1 or not isinstance(c.ops[0], ast.GtE) or not isinstance(c.comparators[0], ast.Constant):
                raise Abort("_send_auth_result: failure limit test is not `self.auth_fail_count >= <int>`")
            calls = [x for x in ast.walk(n) if isinstance(x, ast.Call) and _is_self_attr(x.func, "_disconnect_no_more_auth")]
            if not calls:
                raise Abort("_send_auth_result: the failure limit branch does not call _disconnect_no_more_auth")
            limits.append(c.comparators[0].value)
    if len(limits) != 1:
        raise Abort("_send_auth_result: expected exactly one failure limit test, found %d" % len(limits))

    def disc_code(fn):
        f = _find(atree, "AuthHandler", fn)
        codes = [x.args[0].id for x in ast.walk(f) if isinstance(x, ast.Call) and isinstance(x.func, ast.Attribute)
                 and x.func.attr == "add_int" and x.args and isinstance(x.args[0], ast.Name)]
        if len(codes) != 1 or codes[0] not in env:
            raise Abort("%s: cannot find the reason code" % fn)
        return env[codes[0]]

    svc = disc_code("_disconnect_service_not_available")
    nomore = disc_code("_disconnect_no_more_auth")

    def table_of(cls, fn):
        f = _find(atree, cls, fn)
        rets = [x for x in ast.walk(f) if isinstance(x, ast.Return)]
        if len(rets) != 1:
            raise Abort("%s.%s: expected one return" % (cls, fn))
        return _dict_keys(rets[0].value, env, "%s.%s" % (cls, fn))

    server_types = table_of("AuthHandler", "_server_handler_table")
    gss_types = None
    for c in ast.walk(atree):
        if isinstance(c, ast.ClassDef) and c.name == "GssapiWithMicAuthHandler":
            for st in c.body:
                if isinstance(st, ast.Assign) and isinstance(st.targets[0], ast.Name) \
                        and st.targets[0].id.endswith("__handler_table"):
                    gss_types = _dict_keys(st.value, env, "GssapiWithMicAuthHandler.__handler_table")
            # or (after fixes/C14-gssapi-with-mic-handler-table.diff) a property returning a dict of bound methods
            for st in c.body:
                if gss_types is None and isinstance(st, ast.FunctionDef) and st.name == "_handler_table":
                    rets = [x for x in ast.walk(st) if isinstance(x, ast.Return)]
                    if len(rets) == 1 and isinstance(rets[0].value, ast.Dict):
                        gss_types = _dict_keys(rets[0].value, env, "GssapiWithMicAuthHandler._handler_table")
    if gss_types is None:
        raise Abort("GssapiWithMicAuthHandler handler table not found")

    # ---- transport.py
    ttree = ast.parse(open(os.path.join(repo, "paramiko", "transport.py")).read())
    init = _find(ttree, "Transport", "__init__")
    ht = [x for x in ast.walk(init) if isinstance(x, ast.Assign) and _is_self_attr(x.targets[0], "_handler_table")]
    if len(ht) != 1:
        raise Abort("Transport.__init__: _handler_table assignment not found")
    handler_types = _dict_keys(ht[0].value, env, "Transport._handler_table")
    cht = None
    for c in ast.walk(ttree):
        if isinstance(c, ast.ClassDef) and c.name == "Transport":
            for st in c.body:
                if isinstance(st, ast.Assign) and isinstance(st.targets[0], ast.Name) \
                        and st.targets[0].id == "_channel_handler_table":
                    cht = _dict_keys(st.value, env, "Transport._channel_handler_table")
    if cht is None:
        raise Abort("Transport._channel_handler_table not found")

    ea = _find(ttree, "Transport", "_ensure_authed")
    body = [s for s in ea.body if not (isinstance(s, ast.Expr) and isinstance(s.value, ast.Constant))]
    guard = body[0]
    ok = (isinstance(guard, ast.If) and isinstance(guard.test, ast.BoolOp) and isinstance(guard.test.op, ast.Or)
          and len(guard.test.values) == 3 and len(guard.body) == 1 and isinstance(guard.body[0], ast.Return)
          and isinstance(guard.body[0].value, ast.Constant) and guard.body[0].value.value is None)
    if ok:
        a, b_, c = guard.test.values
        ok = (isinstance(a, ast.UnaryOp) and isinstance(a.op, ast.Not) and _is_self_attr(a.operand, "server_mode")
              and isinstance(b_, ast.Compare) and isinstance(b_.left, ast.Name) and b_.left.id == "ptype"
              and len(b_.ops) == 1 and isinstance(b_.ops[0], ast.LtE)
              and isinstance(b_.comparators[0], ast.Name) and b_.comparators[0].id == "HIGHEST_USERAUTH_MESSAGE_ID"
              and isinstance(c, ast.Call) and _is_self_attr(c.func, "is_authenticated"))
    if not ok:
        raise Abort("_ensure_authed: the guard is not `not self.server_mode or ptype <= HIGHEST_USERAUTH_MESSAGE_ID "
                    "or self.is_authenticated()` -> return None")
    # after the guard: no `return None`, no try/except (an exception path must not fall through to dispatch)
    for n in body[1:]:
        for x in ast.walk(n):
            if isinstance(x, ast.Try):
                raise Abort("_ensure_authed: try/except after the guard (an error path could fall through to dispatch)")
            if isinstance(x, ast.Return) and not (isinstance(x.value, ast.Name) and x.value.id == "reply"):
                raise Abort("_ensure_authed: a return other than `return reply` after the guard")
    branches = [x for x in ast.walk(ea) if isinstance(x, ast.Compare) and isinstance(x.left, ast.Name)
                and x.left.id == "ptype" and isinstance(x.ops[0], ast.Eq) and isinstance(x.comparators[0], ast.Name)]
    got = sorted(x.comparators[0].id for x in branches)
    if got != ["MSG_CHANNEL_OPEN", "MSG_GLOBAL_REQUEST"]:
        raise Abort("_ensure_authed: reply branches are %r" % got)

    # ---- Transport._parse_newkeys: the server AuthHandler is created only when there is none
    nk = _find(ttree, "Transport", "_parse_newkeys")
    creates = []
    for n in ast.walk(nk):
        if isinstance(n, ast.If):
            for st in n.body:
                if isinstance(st, ast.Assign) and _is_self_attr(st.targets[0], "auth_handler"):
                    creates.append(n.test)
    okk = len(creates) == 1 and isinstance(creates[0], ast.BoolOp) and isinstance(creates[0].op, ast.And) \
        and len(creates[0].values) == 2 and _is_self_attr(creates[0].values[0], "server_mode") \
        and isinstance(creates[0].values[1], ast.Compare) and _is_self_attr(creates[0].values[1].left, "auth_handler") \
        and isinstance(creates[0].values[1].ops[0], ast.Is) \
        and isinstance(creates[0].values[1].comparators[0], ast.Constant) \
        and creates[0].values[1].comparators[0].value is None
    if not okk:
        raise Abort("_parse_newkeys: the server AuthHandler is not created exactly under "
                    "`self.server_mode and (self.auth_handler is None)`")

    def zl(l):
        return "[" + "; ".join(str(x) for x in l) + "]"

    lines = ["(* GENERATED by gen/c14.py from paramiko/common.py, auth_handler.py, transport.py -- do not edit *)",
             "From Coq Require Import ZArith List.", "Import ListNotations.", "Open Scope Z_scope.",
             "Definition gen_fail_limit : Z := %d." % limits[0],
             "Definition gen_disc_service_not_available : Z := %d." % svc,
             "Definition gen_disc_no_more_auth : Z := %d." % nomore,
             "Definition gen_highest_userauth : Z := %d." % env["HIGHEST_USERAUTH_MESSAGE_ID"],
             "Definition gen_handler_types : list Z := %s." % zl(handler_types),
             "Definition gen_channel_types : list Z := %s." % zl(cht),
             "Definition gen_auth_server_types : list Z := %s." % zl(server_types),
             "Definition gen_auth_gss_types : list Z := %s." % zl(gss_types),
             "Definition gen_open_prohibited : Z := %d." % env["OPEN_FAILED_ADMINISTRATIVELY_PROHIBITED"],
             "Definition gen_auth_results : list Z := %s." % zl([env["AUTH_SUCCESSFUL"], env["AUTH_PARTIALLY_SUCCESSFUL"],
                                                                   env["AUTH_FAILED"]])]
    for n in need:
        if n.startswith("MSG_"):
            lines.append("Definition gen_%s : Z := %d." % (n.lower(), env[n]))
    return {"C14_gen.v": "\n".join(lines) + "\n"}
