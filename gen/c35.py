"""C35 translator: key-class name tables of the working tree -> coq/Gen/C35_gen.v.

From the AST of paramiko/rsakey.py: RSAKey.name, RSAKey.HASHES (name -> hashes.SHA1/SHA256/SHA512, source order),
the suffix removed by sign_ssh_data's `algorithm.replace(<suffix>, "")`.
From the AST of paramiko/ecdsakey.py: the `_ECDSACurve(ec.<CLASS>, "<nist name>")` list of ECDSAKey._ECDSA_CURVES (order
= curve index), the key_format_identifier prefix (`"ecdsa-sha2-" + self.nist_name`); the field size in bytes of each
curve class comes from the cryptography library's curve object (key_size).
From the AST of paramiko/ed25519key.py: Ed25519Key.name.
Fail-closed: any construct not recognised raises and the check reports a broken obligation.
"""
import ast
import os

HASH_IDS = {"SHA1": 1, "SHA256": 256, "SHA512": 512}


def zl(s):
    if isinstance(s, str):
        s = s.encode("ascii")
    return "[" + "; ".join(str(b) for b in s) + "]"


def _class(repo, fn, name):
    tree = ast.parse(open(os.path.join(repo, "paramiko", fn)).read())
    for n in tree.body:
        if isinstance(n, ast.ClassDef) and n.name == name:
            return n
    raise RuntimeError("class %s not found in %s" % (name, fn))


def _class_assign(cls, target):
    hits = [n for n in cls.body if isinstance(n, ast.Assign) and len(n.targets) == 1
            and isinstance(n.targets[0], ast.Name) and n.targets[0].id == target]
    if len(hits) != 1:
        raise RuntimeError("expected exactly one class-level `%s = ...` in %s" % (target, cls.name))
    return hits[0].value


def _str(node, what):
    if isinstance(node, ast.Constant) and isinstance(node.value, str):
        return node.value
    raise RuntimeError("%s is not a string literal: %s" % (what, ast.dump(node)[:120]))


def _method(cls, name):
    for n in cls.body:
        if isinstance(n, ast.FunctionDef) and n.name == name:
            return n
    raise RuntimeError("%s.%s not found" % (cls.name, name))


def tables(repo):
    rsa = _class(repo, "rsakey.py", "RSAKey")
    rsa_name = _str(_class_assign(rsa, "name"), "RSAKey.name")
    hd = _class_assign(rsa, "HASHES")
    if not isinstance(hd, ast.Dict):
        raise RuntimeError("RSAKey.HASHES is not a dict literal")
    hashes = []
    for k, v in zip(hd.keys, hd.values):
        if not (isinstance(v, ast.Attribute) and isinstance(v.value, ast.Name) and v.value.id == "hashes"
                and v.attr in HASH_IDS):
            raise RuntimeError("unrecognised RSAKey.HASHES value: " + ast.dump(v)[:120])
        hashes.append((_str(k, "HASHES key"), HASH_IDS[v.attr]))
    # sign_ssh_data: algorithm.replace("<suffix>", "")
    reps = [n for n in ast.walk(_method(rsa, "sign_ssh_data")) if isinstance(n, ast.Call)
            and isinstance(n.func, ast.Attribute) and n.func.attr == "replace"]
    if len(reps) != 1 or len(reps[0].args) != 2 or _str(reps[0].args[1], "replacement") != "":
        raise RuntimeError("RSAKey.sign_ssh_data: expected exactly one algorithm.replace(<suffix>, \"\")")
    suffix = _str(reps[0].args[0], "cert suffix")

    ec = _class(repo, "ecdsakey.py", "ECDSAKey")
    cs = _class_assign(ec, "_ECDSA_CURVES")
    if not (isinstance(cs, ast.Call) and isinstance(cs.func, ast.Name) and cs.func.id == "_ECDSACurveSet"
            and len(cs.args) == 1 and isinstance(cs.args[0], ast.List)):
        raise RuntimeError("ECDSAKey._ECDSA_CURVES is not _ECDSACurveSet([...])")
    curves = []
    from cryptography.hazmat.primitives.asymmetric import ec as libec
    for e in cs.args[0].elts:
        if not (isinstance(e, ast.Call) and isinstance(e.func, ast.Name) and e.func.id == "_ECDSACurve" and len(e.args) == 2
                and isinstance(e.args[0], ast.Attribute) and isinstance(e.args[0].value, ast.Name) and e.args[0].value.id == "ec"):
            raise RuntimeError("unrecognised curve entry: " + ast.dump(e)[:160])
        cls_name = e.args[0].attr
        curves.append((_str(e.args[1], "nist name"), (getattr(libec, cls_name).key_size + 7) // 8))
    if len(curves) != 3:
        raise RuntimeError("the model has three curve indices; the source lists %d curves" % len(curves))
    cc = _class(repo, "ecdsakey.py", "_ECDSACurve")
    pref = [n for n in ast.walk(_method(cc, "__init__")) if isinstance(n, ast.Assign) and len(n.targets) == 1
            and isinstance(n.targets[0], ast.Attribute) and n.targets[0].attr == "key_format_identifier"]
    if len(pref) != 1 or not (isinstance(pref[0].value, ast.BinOp) and isinstance(pref[0].value.op, ast.Add)
                              and isinstance(pref[0].value.right, ast.Attribute) and pref[0].value.right.attr == "nist_name"):
        raise RuntimeError("_ECDSACurve: key_format_identifier is not <prefix> + self.nist_name")
    prefix = _str(pref[0].value.left, "ecdsa prefix")

    ed = _class(repo, "ed25519key.py", "Ed25519Key")
    ed_name = _str(_class_assign(ed, "name"), "Ed25519Key.name")
    return {"rsa_name": rsa_name, "hashes": hashes, "suffix": suffix, "curves": curves, "prefix": prefix, "ed_name": ed_name}


def generate(repo):
    t = tables(repo)
    out = ["(* generated by gen/c35.py from paramiko/rsakey.py, ecdsakey.py, ed25519key.py - do not edit *)",
           "From PV Require Import Bytes.", "Open Scope Z_scope.",
           "Definition gen_rsa_name : list Z := %s.   (* %s *)" % (zl(t["rsa_name"]), t["rsa_name"]),
           "Definition gen_ed_name : list Z := %s.   (* %s *)" % (zl(t["ed_name"]), t["ed_name"]),
           "Definition gen_cert_suffix : list Z := %s.   (* %s *)" % (zl(t["suffix"]), t["suffix"]),
           "Definition gen_ecdsa_prefix : list Z := %s.   (* %s *)" % (zl(t["prefix"]), t["prefix"]),
           "(* RSAKey.HASHES in source order: name, hash (1 = SHA1, 256, 512) *)",
           "Definition gen_rsa_hashes : list (list Z * Z) :=\n  [ " + ";\n    ".join(
               "(%s, %d)  (* %s *)" % (zl(n), h, n) for n, h in t["hashes"]) + " ]."]
    for i, (n, k) in enumerate(t["curves"]):
        out.append("Definition gen_curve_name_%d : list Z := %s.   (* %s *)" % (i, zl(n), n))
        out.append("Definition gen_curve_klen_%d : nat := %d%%nat." % (i, k))
    return {"C35_gen.v": "\n".join(out) + "\n"}
