(* C45 -- agent signing requests ask for the hash the caller requested.
   Statements only; every proof is `exact <lemma of Proofs/C45_proofs.v>`.
   The flag map and the message numbers come from Gen/C45_gen.v (regenerated from
   paramiko/agent.py on every run); the names below are written out independently. *)
From PV Require Import Bytes C39 C45_gen C45 C45_proofs.
Open Scope Z_scope.

(* flags = 2 exactly for rsa-sha2-256 and its certificate form, 4 exactly for rsa-sha2-512 and
   its certificate form, 0 for every other name and for None *)
Theorem C45_flags : forall alg, sign_flags alg = spec_flags alg.
Proof. exact flags_spec. Qed.
Print Assumptions C45_flags.

Theorem C45_flags_exact :
  forall alg,
    (sign_flags alg = 2 <-> alg = Some n_rsa_sha2_256 \/ alg = Some (n_rsa_sha2_256 ++ cert_suffix)) /\
    (sign_flags alg = 4 <-> alg = Some n_rsa_sha2_512 \/ alg = Some (n_rsa_sha2_512 ++ cert_suffix)) /\
    (sign_flags alg = 2 \/ sign_flags alg = 4 \/ sign_flags alg = 0).
Proof. exact flags_exact. Qed.
Print Assumptions C45_flags_exact.

(* the request is C39's encoding of: byte 13, string key blob, string data, uint32 flags *)
Theorem C45_payload :
  forall blob inner data alg,
    sign_request blob inner data alg =
    encode_all [FByte 13; FString (key_asbytes blob inner); FString data; FU32 (spec_flags alg)].
Proof. exact request_is_encode_all. Qed.
Print Assumptions C45_payload.

(* hence whoever parses the request per the wire format reads back exactly that key blob, that
   data and those flags, whatever bytes follow *)
Theorem C45_payload_decodes :
  forall blob inner data alg msg rest,
    bytes_ok (key_asbytes blob inner) = true -> bytes_ok data = true ->
    sign_request blob inner data alg = Ok msg ->
    decode_all [KByte; KString; KString; KU32] (msg ++ rest) 0 =
    ([FByte 13; FString (key_asbytes blob inner); FString data; FU32 (spec_flags alg)], length msg).
Proof. exact request_decodes. Qed.
Print Assumptions C45_payload_decodes.

(* SIGN_RESPONSE (14) followed by the signature string: the signature is returned unchanged *)
Theorem C45_reply :
  forall sig enc rest,
    bytes_ok sig = true -> add_string sig = Ok enc ->
    parse_reply (14 :: enc ++ rest) = Ok sig.
Proof. exact reply_signature. Qed.
Print Assumptions C45_reply.

(* any other reply type raises; so does an empty reply; only type 14 can yield a value *)
Theorem C45_reply_other_raises :
  forall t rest, t <> 14 -> parse_reply (t :: rest) = Raise SSHExc.
Proof. exact reply_other_type. Qed.
Print Assumptions C45_reply_other_raises.

Theorem C45_reply_only_response :
  forall body s, parse_reply body = Ok s -> exists rest, body = 14 :: rest.
Proof. exact reply_ok_only_response. Qed.
Print Assumptions C45_reply_only_response.

(* end to end over the connection: the length-framed request is what is written, and a framed
   SIGN_RESPONSE carrying sig makes sign_ssh_data return sig *)
Theorem C45_sign_end_to_end :
  forall blob inner data alg msg sig extra,
    sign_request blob inner data alg = Ok msg ->
    Z.of_nat (length msg) < 2 ^ 32 ->
    bytes_ok sig = true -> Z.of_nat (length sig) + 5 < 2 ^ 32 ->
    sign_ssh_data blob inner data alg
      (frame (14 :: be_encode 4 (Z.of_nat (length sig)) ++ sig) ++ extra)
    = (frame msg, Ok sig).
Proof. exact sign_end_to_end. Qed.
Print Assumptions C45_sign_end_to_end.

Theorem C45_sign_other_reply_raises :
  forall blob inner data alg msg t rest extra,
    sign_request blob inner data alg = Ok msg ->
    Z.of_nat (length msg) < 2 ^ 32 ->
    t <> 14 -> Z.of_nat (length (t :: rest)) < 2 ^ 32 ->
    sign_ssh_data blob inner data alg (frame (t :: rest) ++ extra) = (frame msg, Raise SSHExc).
Proof. exact sign_other_reply. Qed.
Print Assumptions C45_sign_other_reply_raises.

(* non-vacuity *)
Example C45_example :
  sign_flags (Some (n_rsa_sha2_512 ++ cert_suffix)) = 4 /\
  sign_flags (Some [115;115;104;45;114;115;97]) = 0 /\
  sign_ssh_data [0;0;0;1;120] None [1;2;3] (Some n_rsa_sha2_256)
    (frame (14 :: be_encode 4 2 ++ [9; 8]))
  = ([0;0;0;21; 13; 0;0;0;5; 0;0;0;1;120; 0;0;0;3; 1;2;3; 0;0;0;2], Ok [9; 8]).
Proof. vm_compute. repeat split. Qed.
