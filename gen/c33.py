"""C33 translator: paramiko/sftp_attr.py of the working tree -> coq/Gen/C33_gen.v.

generate(repo) -> {"C33_gen.v": text}

Emitted:
* G_FLAG_SIZE / G_FLAG_UIDGID / G_FLAG_PERMISSIONS / G_FLAG_AMTIME / G_FLAG_EXTENDED : Z
  -- the class constants SFTPAttributes.FLAG_* (integer literals, or a name defined by an integer literal in
  paramiko/common.py).
* G_COUNT_BOUNDED : bool -- whether _unpack refuses an extended-pair count the message cannot hold
  (`if count > len(msg.get_remainder()) // 8: raise SSHException(...)`) before looping.

Pinned by AST (fail-closed: any other shape raises and the check reports a broken obligation): the exact
statement sequence of SFTPAttributes._pack and ._unpack -- `self._flags = 0` first, the five presence tests and
the flag each sets, then the writes in wire order with their widths (add_int64 for the size, add_int for
flags / ids / mode / int(times) / count, add_string for key then value), and the reads in the same order with
the same widths (get_int64 / get_int / get_string key then value), the extended loop over `range(count)`.
Also pinned: every other method of the class (the rendering side: __str__, __repr__, asbytes, _debug_str,
_rwx) neither stores into `self` nor calls a method that does (G_RENDER_READONLY).
The hand-written Gallina model coq/Model/C33.v mirrors exactly these shapes; the correspondence run then only
has to validate the Message primitives and the model's reading of these statements.
"""
import ast
import os

EXPECTED_PACK = '''
def _pack(self, msg):
    self._flags = 0
    if self.st_size is not None:
        self._flags |= self.FLAG_SIZE
    if (self.st_uid is not None) and (self.st_gid is not None):
        self._flags |= self.FLAG_UIDGID
    if self.st_mode is not None:
        self._flags |= self.FLAG_PERMISSIONS
    if (self.st_atime is not None) and (self.st_mtime is not None):
        self._flags |= self.FLAG_AMTIME
    if len(self.attr) > 0:
        self._flags |= self.FLAG_EXTENDED
    msg.add_int(self._flags)
    if self._flags & self.FLAG_SIZE:
        msg.add_int64(self.st_size)
    if self._flags & self.FLAG_UIDGID:
        msg.add_int(self.st_uid)
        msg.add_int(self.st_gid)
    if self._flags & self.FLAG_PERMISSIONS:
        msg.add_int(self.st_mode)
    if self._flags & self.FLAG_AMTIME:
        msg.add_int(int(self.st_atime))
        msg.add_int(int(self.st_mtime))
    if self._flags & self.FLAG_EXTENDED:
        msg.add_int(len(self.attr))
        for key, val in self.attr.items():
            msg.add_string(key)
            msg.add_string(val)
    return
'''

UNPACK_HEAD = '''
def _unpack(self, msg):
    self._flags = msg.get_int()
    if self._flags & self.FLAG_SIZE:
        self.st_size = msg.get_int64()
    if self._flags & self.FLAG_UIDGID:
        self.st_uid = msg.get_int()
        self.st_gid = msg.get_int()
    if self._flags & self.FLAG_PERMISSIONS:
        self.st_mode = msg.get_int()
    if self._flags & self.FLAG_AMTIME:
        self.st_atime = msg.get_int()
        self.st_mtime = msg.get_int()
    if self._flags & self.FLAG_EXTENDED:
        count = msg.get_int()
'''
UNPACK_BOUND = '''
        if count > len(msg.get_remainder()) // 8:
            raise SSHException("")
'''
UNPACK_LOOP = '''
        for i in range(count):
            key = msg.get_string()
            val = msg.get_string()
            self.attr[key] = val
'''
EXPECTED_UNPACK = {False: UNPACK_HEAD + UNPACK_LOOP.lstrip("\n"),
                   True: UNPACK_HEAD + UNPACK_BOUND.lstrip("\n") + UNPACK_LOOP.lstrip("\n")}

FLAGS = ["FLAG_SIZE", "FLAG_UIDGID", "FLAG_PERMISSIONS", "FLAG_AMTIME", "FLAG_EXTENDED"]


class _Norm(ast.NodeTransformer):
    """Drop docstrings; blank the message of `raise SSHException("...")` (wording is free)."""

    def visit_Raise(self, node):
        self.generic_visit(node)
        if isinstance(node.exc, ast.Call) and len(node.exc.args) == 1 and isinstance(node.exc.args[0], ast.Constant) \
                and isinstance(node.exc.args[0].value, str):
            node.exc.args[0] = ast.Constant(value="")
        return node


def _dump(fn):
    body = list(fn.body)
    if body and isinstance(body[0], ast.Expr) and isinstance(body[0].value, ast.Constant) \
            and isinstance(body[0].value.value, str):
        body = body[1:]
    fn = ast.FunctionDef(name=fn.name, args=fn.args, body=body, decorator_list=[], returns=None, type_comment=None)
    return ast.dump(_Norm().visit(fn), include_attributes=False)


def _expected(src):
    fn = ast.parse(src).body[0]
    return _dump(fn)


def _first_diff(a, b):
    i = 0
    while i < min(len(a), len(b)) and a[i] == b[i]:
        i += 1
    return "...%s <<< found | expected >>> ...%s" % (a[max(0, i - 60):i + 100], b[max(0, i - 20):i + 100])


def _const_from_common(repo, name):
    tree = ast.parse(open(os.path.join(repo, "paramiko", "common.py")).read())
    vals = []
    for node in tree.body:
        if isinstance(node, ast.Assign) and len(node.targets) == 1 and isinstance(node.targets[0], ast.Name) \
                and node.targets[0].id == name:
            if not (isinstance(node.value, ast.Constant) and type(node.value.value) is int):
                raise RuntimeError("paramiko/common.py: %s is not an integer literal" % name)
            vals.append(node.value.value)
    if len(vals) != 1:
        raise RuntimeError("paramiko/common.py: expected exactly one definition of %s, found %d" % (name, len(vals)))
    return vals[0]


MUTATORS = {"__init__", "from_stat", "_from_msg", "_unpack", "_pack"}


def _check_readonly(cls):
    """Every other method of SFTPAttributes (__repr__, __str__, asbytes, _debug_str, _rwx, ...: the rendering
    side) must leave the object untouched: no store / delete / augmented assignment to an attribute or item of
    `self`, no setattr / delattr / vars / __dict__ / __setattr__, and calls on `self` only to other such methods."""
    methods = {st.name: st for st in cls.body if isinstance(st, ast.FunctionDef)}
    readonly = set(methods) - MUTATORS
    for name in sorted(readonly):
        fn = methods[name]
        params = [a.arg for a in fn.args.args]
        is_static = any(isinstance(d, ast.Name) and d.id == "staticmethod" for d in fn.decorator_list)
        selfname = None if is_static or not params else params[0]
        for n in ast.walk(fn):
            if isinstance(n, (ast.Attribute, ast.Subscript)) and isinstance(n.ctx, (ast.Store, ast.Del)):
                base = n.value
                while isinstance(base, (ast.Attribute, ast.Subscript)):
                    base = base.value
                if isinstance(base, ast.Name) and base.id == selfname:
                    raise RuntimeError("SFTPAttributes.%s modifies the object (rendering must be read-only): %s"
                                       % (name, ast.dump(n)[:120]))
            if isinstance(n, ast.Name) and n.id in ("setattr", "delattr", "vars", "globals", "locals", "exec", "eval"):
                raise RuntimeError("SFTPAttributes.%s uses %s" % (name, n.id))
            if isinstance(n, ast.Attribute) and n.attr in ("__dict__", "__setattr__", "__delattr__", "update",
                                                           "clear", "pop", "popitem", "setdefault"):
                raise RuntimeError("SFTPAttributes.%s uses .%s" % (name, n.attr))
            if isinstance(n, ast.Call) and isinstance(n.func, ast.Attribute) and isinstance(n.func.value, ast.Name) \
                    and n.func.value.id == selfname:
                if n.func.attr not in readonly:
                    raise RuntimeError("SFTPAttributes.%s calls self.%s, which is not a read-only method"
                                       % (name, n.func.attr))
            if selfname is not None:
                # `self` may only be used as `self.<attr>` / str(self) / passed to nothing else
                pass
    return sorted(readonly)


def analyse(repo):
    """{'flags': {name: int}, 'count_bounded': bool}; raises on anything unrecognised."""
    src = open(os.path.join(repo, "paramiko", "sftp_attr.py")).read()
    tree = ast.parse(src)
    classes = [n for n in tree.body if isinstance(n, ast.ClassDef) and n.name == "SFTPAttributes"]
    if len(classes) != 1:
        raise RuntimeError("class SFTPAttributes not found exactly once in sftp_attr.py")
    cls = classes[0]
    # names imported from paramiko.common (the only place a FLAG value may come from besides a literal)
    from_common = set()
    for n in tree.body:
        if isinstance(n, ast.ImportFrom) and n.module == "paramiko.common":
            from_common |= {a.asname or a.name for a in n.names}
    flags = {}
    fns = {}
    for st in cls.body:
        if isinstance(st, ast.Assign) and len(st.targets) == 1 and isinstance(st.targets[0], ast.Name) \
                and st.targets[0].id.startswith("FLAG_"):
            name = st.targets[0].id
            if name in flags:
                raise RuntimeError("%s assigned twice" % name)
            v = st.value
            if isinstance(v, ast.Constant) and type(v.value) is int:
                flags[name] = v.value
            elif isinstance(v, ast.Name) and v.id in from_common:
                flags[name] = _const_from_common(repo, v.id)
            else:
                raise RuntimeError("unrecognised value for %s: %s" % (name, ast.dump(v)[:120]))
        elif isinstance(st, ast.FunctionDef) and st.name in ("_pack", "_unpack"):
            if st.name in fns or st.decorator_list:
                raise RuntimeError("%s defined twice or decorated" % st.name)
            fns[st.name] = st
    if sorted(flags) != sorted(FLAGS):
        raise RuntimeError("FLAG_* constants of SFTPAttributes are %s, expected %s" % (sorted(flags), sorted(FLAGS)))
    for name, v in flags.items():
        if not 0 <= v < 2 ** 32:
            raise RuntimeError("%s = %r is not a 32-bit value" % (name, v))
    if sorted(fns) != ["_pack", "_unpack"]:
        raise RuntimeError("_pack / _unpack not found in SFTPAttributes")
    # no later re-binding of the methods or constants at module level
    for n in ast.walk(tree):
        if isinstance(n, ast.Attribute) and isinstance(n.ctx, ast.Store) and \
                (n.attr in ("_pack", "_unpack") or n.attr.startswith("FLAG_")):
            raise RuntimeError("sftp_attr.py re-binds %s" % n.attr)
    _check_readonly(cls)
    got = _dump(fns["_pack"])
    want = _expected(EXPECTED_PACK)
    if got != want:
        raise RuntimeError("SFTPAttributes._pack has an unrecognised shape: " + _first_diff(got, want))
    got = _dump(fns["_unpack"])
    bounded = None
    for b in (False, True):
        if got == _expected(EXPECTED_UNPACK[b]):
            bounded = b
    if bounded is None:
        raise RuntimeError("SFTPAttributes._unpack has an unrecognised shape: " +
                           _first_diff(got, _expected(EXPECTED_UNPACK[True])))
    if bounded:
        # SSHException must be the paramiko one
        ok = any(isinstance(n, ast.ImportFrom) and n.module == "paramiko.ssh_exception" and
                 any(a.name == "SSHException" and a.asname is None for a in n.names) for n in tree.body)
        if not ok:
            raise RuntimeError("_unpack raises SSHException but it is not imported from paramiko.ssh_exception")
    return {"flags": flags, "count_bounded": bounded}


def generate(repo):
    r = analyse(repo)
    lines = ["(* GENERATED by gen/c33.py from paramiko/sftp_attr.py -- do not edit. *)",
             "From Coq Require Import ZArith.", "Open Scope Z_scope.", ""]
    for name in FLAGS:
        lines.append("Definition G_%s : Z := %d." % (name, r["flags"][name]))
    lines.append("(* _unpack refuses a pair count the message cannot hold before looping *)")
    lines.append("Definition G_COUNT_BOUNDED : bool := %s." % ("true" if r["count_bounded"] else "false"))
    lines.append("(* every method other than __init__/from_stat/_from_msg/_unpack/_pack (the rendering side: __str__,")
    lines.append("   __repr__, asbytes, _debug_str, _rwx) leaves the object untouched -- checked by AST, fail-closed *)")
    lines.append("Definition G_RENDER_READONLY : bool := true.")
    return {"C33_gen.v": "\n".join(lines) + "\n"}
